//go:build linux

package fsnotify

// Reproductions of the defects triaged in /verif/DESIGN.md section 2 (D1, D2a, D2b, D3).
// Not part of /repo: copy into a scratch worktree of /repo and run
//   go test -run 'TestVerifD' -count=1 .
// Each test FAILS on the pinned tree (3216ed4) and PASSES after the matching fix: commit.

import (
	"bufio"
	"errors"
	"fmt"
	"os"
	"path/filepath"
	"sort"
	"strings"
	"testing"
	"time"
)

func vtouch(t *testing.T, p string) {
	t.Helper()
	if err := os.WriteFile(p, nil, 0o644); err != nil {
		t.Fatal(err)
	}
}

func vmarks(t *testing.T, w *Watcher) int {
	t.Helper()
	fd := w.b.(*inotify).fd
	f, err := os.Open(fmt.Sprintf("/proc/self/fdinfo/%d", fd))
	if err != nil {
		t.Fatal(err)
	}
	defer f.Close()
	n := 0
	sc := bufio.NewScanner(f)
	for sc.Scan() {
		if strings.HasPrefix(sc.Text(), "inotify wd:") {
			n++
		}
	}
	return n
}

// D1 (C05, C10): rename-then-delete of a watched file with the reader parked.
func TestVerifD1(t *testing.T) {
	dir := t.TempDir()
	f, g := filepath.Join(dir, "f"), filepath.Join(dir, "g")
	vtouch(t, f)
	w, err := NewWatcher()
	if err != nil {
		t.Fatal(err)
	}
	if err := w.Add(f); err != nil {
		t.Fatal(err)
	}
	// Park the reader on an unread Chmod.
	os.Chmod(f, 0o600)
	time.Sleep(100 * time.Millisecond)
	os.Rename(f, g)
	os.Remove(g)
	time.Sleep(100 * time.Millisecond)

	// Drain Events only; nobody reads Errors.
	stop := make(chan struct{})
	go func() {
		for {
			select {
			case <-w.Events:
			case <-stop:
				return
			}
		}
	}()
	time.Sleep(300 * time.Millisecond)

	done := make(chan struct{})
	go func() { w.WatchList(); close(done) }()
	select {
	case <-done:
	case <-time.After(2 * time.Second):
		select {
		case e := <-w.Errors:
			t.Errorf("WatchList blocked >2s because the reader holds the lock while sending on Errors; error was: %v", e)
		default:
			t.Errorf("WatchList blocked >2s")
		}
	}
	select {
	case e := <-w.Errors:
		t.Errorf("benign rename-then-delete produced an error on Errors: %v", e)
	case <-time.After(200 * time.Millisecond):
	}
	close(stop)
	cd := make(chan struct{})
	go func() { w.Close(); close(cd) }()
	select {
	case <-cd:
	case <-time.After(2 * time.Second):
		t.Errorf("Close blocked >2s")
	}
}

// D2a (C04): re-pointed symlink whose new target is already watched.
func TestVerifD2a(t *testing.T) {
	dir := t.TempDir()
	a, b, l := filepath.Join(dir, "a"), filepath.Join(dir, "b"), filepath.Join(dir, "l")
	vtouch(t, a)
	vtouch(t, b)
	os.Symlink(a, l)
	w, err := NewWatcher()
	if err != nil {
		t.Fatal(err)
	}
	defer w.Close()
	go func() {
		for range w.Events {
		}
	}()
	go func() {
		for range w.Errors {
		}
	}()
	if err := w.Add(l); err != nil {
		t.Fatal(err)
	}
	if err := w.Add(b); err != nil {
		t.Fatal(err)
	}
	os.Remove(l)
	os.Symlink(b, l)
	if err := w.Add(l); err != nil {
		t.Fatal(err)
	}
	wl := w.WatchList()
	sort.Strings(wl)
	in := w.b.(*inotify)
	in.mu.Lock()
	nwd, npath := len(in.watches.wd), len(in.watches.path)
	in.mu.Unlock()
	if nwd != npath {
		t.Errorf("tables diverge: %d wd entries, %d path entries; WatchList=%v", nwd, npath, wl)
	}
	if m := vmarks(t, w); m != nwd {
		t.Errorf("kernel holds %d marks for %d table entries", m, nwd)
	}
	func() {
		defer func() {
			if r := recover(); r != nil {
				t.Errorf("Remove(l) panicked: %v", r)
			}
		}()
		for _, p := range wl {
			err := w.Remove(p)
			if err != nil && !errors.Is(err, ErrNonExistentWatch) {
				t.Errorf("Remove(%q): %v", p, err)
			}
		}
	}()
	if m := vmarks(t, w); m != 0 {
		t.Errorf("%d kernel marks survive removal of every listed path", m)
	}
}

// D2b (C12): re-Add of a path whose old inode is kept alive by a hard link.
func TestVerifD2b(t *testing.T) {
	dir := t.TempDir()
	f, g := filepath.Join(dir, "f"), filepath.Join(dir, "g")
	vtouch(t, f)
	w, err := NewWatcher()
	if err != nil {
		t.Fatal(err)
	}
	defer w.Close()
	go func() {
		for range w.Events {
		}
	}()
	go func() {
		for range w.Errors {
		}
	}()
	if err := w.Add(f); err != nil {
		t.Fatal(err)
	}
	os.Link(f, g)
	os.Remove(f)
	vtouch(t, f)
	time.Sleep(100 * time.Millisecond)
	if err := w.Add(f); err != nil {
		t.Fatal(err)
	}
	if m, l := vmarks(t, w), len(w.WatchList()); m != l {
		t.Errorf("kernel holds %d marks for %d listed paths", m, l)
	}
	if err := w.Remove(f); err != nil {
		t.Errorf("Remove: %v", err)
	}
	if m := vmarks(t, w); m != 0 {
		t.Errorf("%d kernel marks survive Remove of the only listed path", m)
	}
}

// D3 (C19): sibling recursive roots sharing a string prefix.
func TestVerifD3(t *testing.T) {
	old := enableRecurse
	enableRecurse = true
	defer func() { enableRecurse = old }()
	dir := t.TempDir()
	d1, d10 := filepath.Join(dir, "dir1"), filepath.Join(dir, "dir10")
	os.MkdirAll(filepath.Join(d1, "x"), 0o755)
	os.MkdirAll(filepath.Join(d10, "y"), 0o755)
	w, err := NewWatcher()
	if err != nil {
		t.Fatal(err)
	}
	defer w.Close()
	go func() {
		for range w.Errors {
		}
	}()
	if err := w.Add(filepath.Join(d1, "...")); err != nil {
		t.Fatal(err)
	}
	if err := w.Add(filepath.Join(d10, "...")); err != nil {
		t.Fatal(err)
	}
	if err := w.Remove(filepath.Join(d1, "...")); err != nil {
		t.Fatal(err)
	}
	wl := w.WatchList()
	sort.Strings(wl)
	want := []string{d10, filepath.Join(d10, "y")}
	if strings.Join(wl, ",") != strings.Join(want, ",") {
		t.Errorf("after Remove(dir1/...) WatchList = %v, want %v", wl, want)
	}
	vtouch(t, filepath.Join(d10, "y", "file"))
	select {
	case e := <-w.Events:
		if e.Name != filepath.Join(d10, "y", "file") {
			t.Errorf("unexpected event %v", e)
		}
	case <-time.After(time.Second):
		t.Errorf("dir10 went silent after Remove(dir1/...)")
	}
}

// D3 (C19), second site: rename rewrite over-matches a sibling.
func TestVerifD3rename(t *testing.T) {
	old := enableRecurse
	enableRecurse = true
	defer func() { enableRecurse = old }()
	dir := t.TempDir()
	os.MkdirAll(filepath.Join(dir, "sub"), 0o755)
	os.MkdirAll(filepath.Join(dir, "sub2"), 0o755)
	w, err := NewWatcher()
	if err != nil {
		t.Fatal(err)
	}
	defer w.Close()
	go func() {
		for range w.Errors {
		}
	}()
	if err := w.Add(filepath.Join(dir, "...")); err != nil {
		t.Fatal(err)
	}
	os.Rename(filepath.Join(dir, "sub"), filepath.Join(dir, "new"))
	deadline := time.After(time.Second)
loop:
	for {
		select {
		case e := <-w.Events:
			if e.Has(Create) && e.Name == filepath.Join(dir, "new") {
				break loop
			}
		case <-deadline:
			t.Fatal("no Create for new")
		}
	}
	vtouch(t, filepath.Join(dir, "sub2", "file"))
	select {
	case e := <-w.Events:
		if e.Name != filepath.Join(dir, "sub2", "file") {
			t.Errorf("event for sub2/file reported as %q", e.Name)
		}
	case <-time.After(time.Second):
		t.Errorf("no event")
	}
}

func vwaitCreate(t *testing.T, w *Watcher, name string) {
	t.Helper()
	deadline := time.After(time.Second)
	for {
		select {
		case e := <-w.Events:
			if e.Has(Create) && e.Name == name {
				return
			}
		case <-deadline:
			t.Fatalf("no Create for %s", name)
		}
	}
}

// D6 (C19): after a directory rename inside a recursive tree the path table keeps the
// old name as key; creating a new directory under the old name then takes the renamed
// directory's watch away.
func TestVerifD6(t *testing.T) {
	old := enableRecurse
	enableRecurse = true
	defer func() { enableRecurse = old }()
	dir := t.TempDir()
	os.MkdirAll(filepath.Join(dir, "sub"), 0o755)
	w, err := NewWatcher()
	if err != nil {
		t.Fatal(err)
	}
	defer w.Close()
	go func() {
		for range w.Errors {
		}
	}()
	if err := w.Add(filepath.Join(dir, "...")); err != nil {
		t.Fatal(err)
	}
	os.Rename(filepath.Join(dir, "sub"), filepath.Join(dir, "new"))
	vwaitCreate(t, w, filepath.Join(dir, "new"))
	wl := w.WatchList()
	sort.Strings(wl)
	if want := []string{dir, filepath.Join(dir, "new")}; strings.Join(wl, ",") != strings.Join(want, ",") {
		t.Errorf("WatchList after rename = %v, want %v", wl, want)
	}
	os.Mkdir(filepath.Join(dir, "sub"), 0o755)
	vwaitCreate(t, w, filepath.Join(dir, "sub"))
	for _, n := range []string{"new", "sub"} {
		vtouch(t, filepath.Join(dir, n, "file"))
		select {
		case e := <-w.Events:
			if e.Name != filepath.Join(dir, n, "file") {
				t.Errorf("event for %s/file reported as %q", n, e.Name)
			}
		case <-time.After(time.Second):
			t.Errorf("no event for %s/file: the directory lost its watch", n)
		}
	}
}

package main

import (
	"os"
	"strings"

	"golang.org/x/tools/go/ssa"
)

func init() {
	register(&property{
		Meta: propMeta{
			ID:    "C10",
			Title: "Errors carries only genuine failures; overflow is reported and survivable",
			Explanation: "Who-may-report enumeration with value-origin classification over the SSA of the inotify reader. Every live call of the error-send function is enumerated and the origin of its argument classified; allowed origins are: the error of the read on the inotify file (except os.ErrClosed); an error constructed under the short-read test; ErrEventOverflow under IN_Q_OVERFLOW; the handler's error result, whose non-nil sources are examined edge by edge: a failed inotify_add_watch (recursive mode only, guarded by the watch's recursive flag) and a failed inotify_rm_watch on the clean-up of a renamed watch, which is allowed only if every conjunct of the edge condition excludes both ErrNonExistentWatch and EINVAL (inotify(7): the kernel invalidates a watch when its file is deleted, so EINVAL there is ordinary activity). Any other origin - in particular a freshly constructed error on the event path - is a violation. " +
				"Also decided: the error-send function is a blocking select over exactly {<-done, Errors<-err} skipped only for a nil error and failing only on done (a reported failure, the overflow report in particular, cannot be dropped by a timeout or default branch - C10.3); ErrEventOverflow is passed unwrapped or wrapped with %w (errors.Is works), and after a delivered overflow report the reader continues with the same record (C01.4). " +
				"Not decided: whether and how often overflow happens; all speeds.",
			Rule:        "one obligation per error-send call site and, for the handler's error result, per non-nil source edge; non-trivial = site reachable in production configuration",
			Assumptions: []string{"go/types + go/ssa", "inotify(7): inotify_rm_watch fails with EINVAL for a watch the kernel already removed"},
			MinObl:      7,
		},
		Configs: tiered(linuxQuick, linuxAll),
		Run:     runC10,
	})
}

func runC10(p *Program, e *Engine, r *Result, tier string) {
	a := newAn(p, e, r, true)
	if a == nil {
		return
	}
	df := decodeFacts(a)
	if df == nil {
		return
	}
	ro := a.Ro
	n := 0
	// every error-send call reachable from the reader (any depth) and from the API
	type rootT struct {
		fn  *ssa.Function
		api bool
	}
	roots := []rootT{{df.Reader, false}}
	for _, m := range ro.apiRoots() {
		roots = append(roots, rootT{m, true})
	}
	for _, rt := range roots {
		w := a.walk(rt.fn)
		for _, v := range w.Visits {
			call, ok := v.Instr.(*ssa.Call)
			if !ok {
				continue
			}
			cal := v.Ctx.calleeOf(&call.Call)
			if cal == nil || !ro.isSendError(cal) {
				continue
			}
			n++
			if rt.api {
				a.R.ob("C10.1", "error-send@API:"+rt.fn.Name(), "API calls return their errors; they do not put them on Errors", a.P.instrPos(call), false, "reached via "+v.Ctx.chain())
				continue
			}
			arg := call.Call.Args[len(call.Call.Args)-1]
			edges := valueEdges(v.Ctx, arg, v.Cond)
			if os.Getenv("C10DEBUG") != "" {
				for _, e := range edges {
					println("C10DEBUG", a.P.instrPos(call), e.Ctx.path(e.V), "::", e.Cond.String())
				}
			}
			c10Classify(a, v, call, edges, sizeofRecord(a, df))
		}
	}
	if n == 0 {
		a.R.fail("no error-send call found (vacuous)")
	}
	c01Overflow(a, df, "C10.2")
	c10Send(a, "C10.3")
}

// errIsExcludes: every conjunct of cond has a literal !errors.Is(x, target) whose x can be the value of edge e.
func errIsExcludes(cond DNF, e ValEdge, target func(string) bool) bool {
	g, _ := cond.everyConj(func(c Conj) bool {
		return c.has(func(l Lit) bool {
			if l.A.Kind != AkErrIs || !l.Neg || !target(stripIDs(l.A.K)) || l.A.Call == nil {
				return false
			}
			// the tested value must be able to be this edge's value
			for _, x := range valueEdges(l.A.Ctx, l.A.Call.Call.Args[0], dnfTrue()) {
				if x.V == e.V {
					return true
				}
			}
			return false
		})
	})
	return g
}

func c10Classify(a *An, site *Visit, call *ssa.Call, edges []ValEdge, recSize int64) {
	ro := a.Ro
	pos := a.P.instrPos(call)
	where := shortFn(call.Parent())
	einval, _ := unixConst(a, "EINVAL")
	nonNil := 0
	seen := map[string]bool{}
	for _, e := range edges {
		if isNilConst(e.V) {
			continue
		}
		nonNil++
		kind, ok, wit := "other", false, ""
		callOf := func(v ssa.Value) (*ssa.Call, int) {
			switch x := v.(type) {
			case *ssa.Extract:
				if c, isC := x.Tuple.(*ssa.Call); isC {
					return c, x.Index
				}
			case *ssa.Call:
				return x, 0
			}
			return nil, 0
		}
		src, _ := callOf(e.V)
		srcName := ""
		if src != nil {
			if cal := e.Ctx.calleeOf(&src.Call); cal != nil {
				srcName = fullName(cal)
			}
		}
		isGlobal := func(v ssa.Value, g *ssa.Global) bool {
			if u, isU := v.(*ssa.UnOp); isU {
				return u.X == ssa.Value(g)
			}
			return false
		}
		switch {
		case isGlobal(e.V, ro.ErrOverflow) || srcName == "fmt.Errorf" && wrapsOnly(e.Ctx, src, ro.ErrOverflow.Name()):
			kind = "overflow"
			g, bad := e.Cond.everyConj(func(c Conj) bool { return c.has(func(l Lit) bool { return bitsWithin(l, a, "IN_Q_OVERFLOW") }) })
			ok = g
			wit = "ErrEventOverflow (errors.Is-compatible) under IN_Q_OVERFLOW"
			if !g {
				wit = "ErrEventOverflow is reported without IN_Q_OVERFLOW under " + stripIDs(bad.String())
			}
		case srcName == "(*os.File).Read" || srcName == "golang.org/x/sys/unix.Read":
			kind = "read-error"
			ok = errIsExcludes(e.Cond, e, func(k string) bool { return strings.HasSuffix(k, "os.ErrClosed") })
			wit = "error returned by the read on the inotify file, os.ErrClosed excluded"
			if !ok {
				wit = "the read error is reported without excluding os.ErrClosed (Close would surface as an error)"
			}
		case srcName == "errors.New" || srcName == "fmt.Errorf" && len(wrappedOperands(e.Ctx, src)) == 0 || isIOEOF(e.V):
			kind = "constructed"
			g, _ := e.Cond.everyConj(func(c Conj) bool {
				return c.has(func(l Lit) bool {
					if l.A.Kind != AkCmp || l.Neg || !strings.Contains(l.A.Subj, ".Read(") || !strings.HasSuffix(stripIDs(l.A.Subj), "#0") {
						return false
					}
					// "fewer bytes than one record header": n < Sizeof, n <= Sizeof-1, or the n == 0 sub-case
					switch {
					case l.A.Op == "<" && l.A.K == sprintf("c:%d", recSize):
						return true
					case l.A.Op == "<=" && l.A.K == sprintf("c:%d", recSize-1):
						return true
					case l.A.Op == "==" && l.A.K == "c:0":
						return true
					}
					return false
				})
			})
			ok = g
			kind = "short-read"
			wit = "error constructed under the short-read test"
			if !g {
				kind = "constructed"
				wit = "a freshly constructed error (" + srcName + ", no %w) is reported on the event path under " + tail(stripIDs(e.Cond.String()), 300) + ": it hides its cause from errors.Is, so filters for benign outcomes cannot apply"
			}
		case srcName == "golang.org/x/sys/unix.InotifyRmWatch":
			kind = "inotify_rm_watch"
			ok = errIsExcludes(e.Cond, e, func(k string) bool { return strings.HasSuffix(k, "unix.EINVAL") || k == sprintf("c:%d", einval) })
			wit = "failure of inotify_rm_watch, EINVAL (watch already gone in the kernel) excluded"
			if !ok {
				wit = "an inotify_rm_watch failure is forwarded without excluding EINVAL (the kernel had already dropped the watch: ordinary activity)"
			}
		case srcName == "fmt.Errorf" && wrapsOnly(e.Ctx, src, ro.ErrNonExist.Name()):
			kind = "not-watched"
			ok = errIsExcludes(e.Cond, e, func(k string) bool { return strings.HasSuffix(k, ro.ErrNonExist.Name()) })
			wit = "ErrNonExistentWatch from the clean-up, excluded"
			if !ok {
				wit = "ErrNonExistentWatch from the clean-up is forwarded (the watch was already removed: ordinary activity)"
			}
		case srcName == "golang.org/x/sys/unix.InotifyAddWatch":
			kind = "inotify_add_watch"
			g, _ := e.Cond.everyConj(func(c Conj) bool {
				return c.has(func(l Lit) bool { return l.A.Kind == AkBool && !l.Neg && strings.HasSuffix(l.A.Subj, ".recurse") })
			})
			ok = g
			wit = "failed registration of a new directory (recursive mode only)"
			if !g {
				wit = "a registration failure is reported outside recursive mode"
			}
		default:
			wit = "argument can be " + tail(stripIDs(e.Ctx.path(e.V)), 120)
		}
		key := sprintf("error-send@%s(%s)", where, kind)
		if seen[key] && ok {
			continue
		}
		seen[key] = true
		a.R.ob("C10.1", key, "a value is put on Errors only for a genuine failure; benign outcomes of clean-up syscalls (ErrNonExistentWatch, EINVAL) and the Close-induced read error are filtered", pos, ok, wit)
	}
	a.R.fact("error-send in %s: %d source(s), %d non-nil", where, len(edges), nonNil)
	_ = site
}

func isIOEOF(v ssa.Value) bool {
	if u, ok := v.(*ssa.UnOp); ok {
		if g, ok := u.X.(*ssa.Global); ok {
			return g.Name() == "EOF" && g.Pkg != nil && g.Pkg.Pkg.Path() == "io"
		}
	}
	return false
}

// wrapsOnly: the fmt.Errorf call has %w operands and all of them originate from the named global.
func wrapsOnly(c *Ctx, call *ssa.Call, global string) bool {
	ws := wrappedOperands(c, call)
	if len(ws) == 0 {
		return false
	}
	for _, w := range ws {
		for _, o := range origins(c, w, 0) {
			if o != global {
				return false
			}
		}
	}
	return true
}

package main

import (
	"strings"

	"golang.org/x/tools/go/ssa"
)

func init() {
	register(&property{
		Meta: propMeta{
			ID:    "C10",
			Title: "Errors carries only genuine failures; overflow is reported and survivable",
			Explanation: "Who-may-report enumeration with value-origin classification over the SSA of the inotify reader. Every live call of the error-send function is enumerated and the origin of its argument classified; allowed origins are: the error of the read on the inotify file (except os.ErrClosed); an error constructed under the short-read test; ErrEventOverflow under IN_Q_OVERFLOW; the handler's error result, whose non-nil sources are examined edge by edge: a failed inotify_add_watch (recursive mode only, guarded by the watch's recursive flag) and a failed inotify_rm_watch on the clean-up of a renamed watch, which is allowed only if every conjunct of the edge condition excludes both ErrNonExistentWatch and EINVAL (inotify(7): the kernel invalidates a watch when its file is deleted, so EINVAL there is ordinary activity). Any other origin - in particular a freshly constructed error on the event path - is a violation. " +
				"Also decided: ErrEventOverflow is passed unwrapped or wrapped with %w (errors.Is works), and after a delivered overflow report the reader continues with the same record (C01.4). " +
				"Not decided: whether and how often overflow happens; all speeds.",
			Rule:        "one obligation per error-send call site and, for the handler's error result, per non-nil source edge; non-trivial = site reachable in production configuration",
			Assumptions: []string{"go/types + go/ssa", "inotify(7): inotify_rm_watch fails with EINVAL for a watch the kernel already removed"},
			MinObl:      5,
		},
		Configs: tiered(linuxQuick, linuxAll),
		Run:     runC10,
	})
}

func runC10(p *Program, e *Engine, r *Result, tier string) {
	a := newAn(p, e, r, true)
	if a == nil {
		return
	}
	df := decodeFacts(a)
	if df == nil {
		return
	}
	ro := a.Ro
	rd := df.Reader
	w := a.walk(rd)
	n := 0
	for _, v := range w.Visits {
		call, ok := v.Instr.(*ssa.Call)
		if !ok {
			continue
		}
		cal := v.Ctx.calleeOf(&call.Call)
		if cal == nil || !ro.isSendError(cal) {
			continue
		}
		n++
		arg := call.Call.Args[len(call.Call.Args)-1]
		org := origins(v.Ctx, arg, 0)
		pos := a.P.instrPos(call)
		where := shortFn(call.Parent())
		// handler result?
		if ex, isEx := stripConv(arg).(*ssa.Extract); isEx && ex.Tuple == ssa.Value(df.HandlerCall) && v.Ctx.Parent == nil {
			c10HandlerErrors(a, df, ex.Index)
			continue
		}
		classify := func() (string, bool, string) {
			has := func(s string) bool {
				for _, o := range org {
					if o == s {
						return true
					}
				}
				return false
			}
			switch {
			case has(ro.ErrOverflow.Name()) || has("wraps:"+ro.ErrOverflow.Name()):
				for _, o := range org {
					if o != ro.ErrOverflow.Name() && o != "wraps:"+ro.ErrOverflow.Name() && o != "call:fmt.Errorf" {
						return "overflow", false, "ErrEventOverflow mixed with other origins: " + strings.Join(org, "|")
					}
				}
				g, bad := v.Cond.everyConj(func(c Conj) bool { return c.has(func(l Lit) bool { return isBitLit(l, "IN_Q_OVERFLOW", a) }) })
				if !g {
					return "overflow", false, "ErrEventOverflow is reported without IN_Q_OVERFLOW under " + stripIDs(bad.String())
				}
				return "overflow", true, "ErrEventOverflow (errors.Is-compatible) under IN_Q_OVERFLOW"
			case len(org) == 1 && (org[0] == "call:(*os.File).Read" || strings.HasPrefix(org[0], "extract:") && strings.Contains(org[0], "(*os.File).Read(")):
				g, _ := v.Cond.everyConj(func(c Conj) bool {
					return c.has(func(l Lit) bool { return l.A.Kind == AkErrIs && l.Neg && strings.HasSuffix(l.A.K, "os.ErrClosed") })
				})
				if !g {
					return "read-error", false, "the read error is reported without excluding os.ErrClosed (Close would surface as an error)"
				}
				return "read-error", true, "error returned by the read on the inotify file, os.ErrClosed excluded"
			default:
				// constructed errors: allowed only under the short-read test
				constructed := true
				for _, o := range org {
					if o != "call:errors.New" && o != "EOF" && o != "call:fmt.Errorf" {
						constructed = false
					}
				}
				if constructed {
					g, _ := v.Cond.everyConj(func(c Conj) bool {
						return c.has(func(l Lit) bool {
							return l.A.Kind == AkCmp && !l.Neg && l.A.Op == "<" && strings.Contains(l.A.Subj, "(*os.File).Read(") && strings.HasSuffix(l.A.Subj, "#0")
						})
					})
					if g {
						return "short-read", true, "error constructed under the short-read test"
					}
					return "constructed", false, "a freshly constructed error (" + strings.Join(org, "|") + ") is reported under " + stripIDs(v.Cond.String())
				}
				return "other", false, "argument originates from " + strings.Join(org, "|")
			}
		}
		kind, ok2, wit := classify()
		a.R.ob("C10.1", sprintf("error-send@%s(%s)", where, kind), "a value is put on Errors only for a genuine failure (read error, short read, kernel queue overflow, failed syscall)", pos, ok2, wit)
	}
	// API roots must not report errors at all in production configuration (they return them)
	for _, m := range ro.apiRoots() {
		for _, v := range a.walk(m).Visits {
			if call, ok := v.Instr.(*ssa.Call); ok {
				if cal := v.Ctx.calleeOf(&call.Call); cal != nil && ro.isSendError(cal) {
					n++
					a.R.ob("C10.1", "error-send@API:"+m.Name(), "API calls return their errors; they do not put them on Errors", a.P.instrPos(call), false, "reached via "+v.Ctx.chain())
				}
			}
		}
	}
	if n == 0 {
		a.R.fail("no error-send call found (vacuous)")
	}
	c01Overflow(a, df, "C10.2")
}

// c10HandlerErrors examines the non-nil sources of the handler's error result.
func c10HandlerErrors(a *An, df *DecodeFacts, idx int) {
	ro := a.Ro
	_, hv, hctx := handlerVisits(a, df)
	if hctx == nil {
		a.R.fail("handler not inlined")
		return
	}
	// collect (value, condition) pairs for the returned error: walk phis with edge conditions (handler-local)
	type src struct {
		v    ssa.Value
		cond DNF
	}
	var srcs []src
	seen := map[ssa.Value]bool{}
	var rec func(v ssa.Value, cond DNF)
	rec = func(v ssa.Value, cond DNF) {
		if rv, rc := hctx.resolve(v); rc == hctx {
			v = rv
		}
		if ph, ok := v.(*ssa.Phi); ok {
			if seen[ph] {
				return
			}
			seen[ph] = true
			for i, e := range ph.Edges {
				ec := phiEdgeCond(hctx, ph, i)
				rec(e, ec)
			}
			return
		}
		srcs = append(srcs, src{v, cond})
	}
	nRet := 0
	for _, v := range hv {
		r, ok := v.Instr.(*ssa.Return)
		if !ok || v.Ctx != hctx || idx >= len(r.Results) {
			continue
		}
		nRet++
		rec(r.Results[idx], v.Local)
	}
	if nRet == 0 {
		a.R.fail("handler has no return (vacuous)")
	}
	einval := "golang.org/x/sys/unix.EINVAL"
	nNonNil := 0
	for _, s := range srcs {
		if isNilConst(s.v) {
			continue
		}
		nNonNil++
		org := origins(hctx, s.v, 0)
		vp := hctx.path(s.v)
		excl := func(target string) bool {
			g, _ := s.cond.everyConj(func(c Conj) bool {
				return c.has(func(l Lit) bool {
					return l.A.Kind == AkErrIs && l.Neg && l.A.Subj == vp && strings.HasSuffix(stripIDs(l.A.K), target)
				})
			})
			return g
		}
		var kinds []string
		ok := true
		var why []string
		for _, o := range org {
			switch {
			case o == "nil":
			case o == "call:golang.org/x/sys/unix.InotifyRmWatch" || strings.HasPrefix(o, "extract:") && strings.Contains(o, "InotifyRmWatch("):
				kinds = append(kinds, "inotify_rm_watch")
				ev, _ := unixConst(a, "EINVAL")
				if !excl("unix.EINVAL") && !excl(einval) && !excl(sprintf("c:%d", ev)) {
					ok = false
					why = append(why, "an inotify_rm_watch failure is forwarded without excluding EINVAL (the kernel had already dropped the watch: ordinary activity)")
				}
			case o == "call:fmt.Errorf" || o == "call:errors.New":
				kinds = append(kinds, "constructed")
				ok = false
				why = append(why, "a freshly constructed error (no %w) is reported from the event path: it hides its cause from errors.Is, so the filters for benign outcomes cannot apply")
			case o == "wraps:"+ro.ErrNonExist.Name():
				kinds = append(kinds, "removal-error")
				if !excl(ro.ErrNonExist.Name()) {
					ok = false
					why = append(why, "ErrNonExistentWatch from the clean-up is forwarded (the watch was already removed: ordinary activity)")
				}
			case o == "call:golang.org/x/sys/unix.InotifyAddWatch" || strings.HasPrefix(o, "extract:") && strings.Contains(o, "InotifyAddWatch("):
				kinds = append(kinds, "inotify_add_watch")
				g, _ := s.cond.everyConj(func(c Conj) bool {
					return c.has(func(l Lit) bool { return l.A.Kind == AkBool && !l.Neg && strings.HasSuffix(l.A.Subj, ".recurse") })
				})
				if !g {
					ok = false
					why = append(why, "a registration failure is reported outside recursive mode")
				}
			default:
				ok = false
				why = append(why, "unexpected origin "+o)
				kinds = append(kinds, "other")
			}
		}
		wit := "origins " + strings.Join(org, "|") + " on an edge conditioned on " + stripIDs(s.cond.String())
		if !ok {
			wit = strings.Join(uniq(why), "; ") + " || " + wit
		}
		a.R.ob("C10.1", "handler-error("+strings.Join(uniq(kinds), "+")+")", "an error the handler hands to the reader for Errors is a genuine failure: benign outcomes of clean-up syscalls (ErrNonExistentWatch, EINVAL) are filtered",
			a.P.pos(df.Handler.Pos()), ok, wit)
	}
	a.R.fact("handler error result: %d source(s), %d non-nil", len(srcs), nNonNil)
}

package main

import (
	"encoding/json"
	"flag"
	"fmt"
	"os"
	"os/exec"
	"path/filepath"
	"runtime/debug"
	"sort"
	"strconv"
	"strings"
	"sync"
	"time"
)

type property struct {
	Meta    propMeta
	Configs func(tier string) []Config
	Run     func(p *Program, e *Engine, r *Result, tier string)
}

var registry = map[string]*property{}

func register(p *property) { registry[p.Meta.ID] = p }

// Configuration families (every GOOS/GOARCH of `go tool dist list` that compiles the backend).
var (
	linuxQuick   = []Config{{"linux", "amd64"}}
	linuxAll     = cfgs("linux", "386 amd64 arm arm64 loong64 mips mips64 mips64le mipsle ppc64 ppc64le riscv64 s390x")
	kqueueQuick  = []Config{{"freebsd", "amd64"}, {"darwin", "arm64"}}
	kqueueAll    = append(append(append(append(cfgs("freebsd", "386 amd64 arm arm64 riscv64"), cfgs("darwin", "amd64 arm64")...), cfgs("openbsd", "386 amd64 arm arm64 ppc64 riscv64")...), cfgs("netbsd", "386 amd64 arm arm64")...), cfgs("dragonfly", "amd64")...)
	windowsQuick = []Config{{"windows", "amd64"}}
	windowsAll   = cfgs("windows", "386 amd64 arm arm64")
	fenAll       = []Config{{"solaris", "amd64"}, {"illumos", "amd64"}}
	fenQuick     = []Config{{"solaris", "amd64"}}
	allBackendsQ = concat(linuxQuick, []Config{{"freebsd", "amd64"}}, windowsQuick, fenQuick)
	allBackendsT = concat(linuxAll, kqueueAll, windowsAll, fenAll)
)

func cfgs(goos, arches string) []Config {
	var out []Config
	for _, a := range strings.Fields(arches) {
		out = append(out, Config{goos, a})
	}
	return out
}
func concat(l ...[]Config) []Config {
	var out []Config
	for _, x := range l {
		out = append(out, x...)
	}
	return out
}
func tiered(q, t []Config) func(string) []Config {
	return func(tier string) []Config {
		if tier == "thorough" {
			return t
		}
		return q
	}
}

func main() {
	if len(os.Args) < 2 {
		fmt.Fprintln(os.Stderr, "usage: fsnverif check|single|dump|list ...")
		os.Exit(2)
	}
	switch os.Args[1] {
	case "check":
		os.Exit(cmdCheck(os.Args[2:]))
	case "single":
		os.Exit(cmdSingle(os.Args[2:]))
	case "dump":
		os.Exit(cmdDump(os.Args[2:]))
	case "list":
		ids := []string{}
		for id := range registry {
			ids = append(ids, id)
		}
		sort.Strings(ids)
		for _, id := range ids {
			fmt.Println(id, registry[id].Meta.Title)
		}
	default:
		fmt.Fprintln(os.Stderr, "unknown command", os.Args[1])
		os.Exit(2)
	}
}

func runSingle(prop *property, repo string, cfg Config, tier string) (res *Result) {
	res = &Result{Property: prop.Meta.ID, Config: cfg.String()}
	defer func() {
		if x := recover(); x != nil {
			res.fail("checker panic: %v\n%s", x, debug.Stack())
		}
	}()
	p, err := loadProgram(repo, cfg)
	if err != nil {
		res.fail("%v", err)
		return res
	}
	res.Files = p.mainFiles()
	res.Funcs = p.nFuncsModule
	e := newEngine(p)
	prop.Run(p, e, res, tier)
	if len(controlsFor(prop.Meta.ID)) > 0 {
		e2 := newEngine(p)
		e2.computeFold()
		ro, _ := discoverRoles(p, e2)
		if ro != nil {
			runControls(p, e2, res, ro)
		}
	}
	return res
}

func cmdSingle(args []string) int {
	fs := flag.NewFlagSet("single", flag.ExitOnError)
	propID := fs.String("prop", "", "property id")
	cfgS := fs.String("config", "linux/amd64", "GOOS/GOARCH")
	repo := fs.String("repo", "/repo", "repository")
	tier := fs.String("tier", "quick", "quick|thorough")
	fs.Parse(args)
	prop := registry[*propID]
	if prop == nil {
		fmt.Fprintln(os.Stderr, "unknown property", *propID)
		return 2
	}
	cfg, err := parseConfig(*cfgS)
	if err != nil {
		fmt.Fprintln(os.Stderr, err)
		return 2
	}
	res := runSingle(prop, *repo, cfg, *tier)
	enc := json.NewEncoder(os.Stdout)
	if err := enc.Encode(res); err != nil {
		fmt.Fprintln(os.Stderr, err)
		return 2
	}
	return 0
}

func cmdCheck(args []string) int {
	fs := flag.NewFlagSet("check", flag.ExitOnError)
	propID := fs.String("prop", "", "property id")
	repo := fs.String("repo", "/repo", "repository")
	verif := fs.String("verif", "/verif", "verification directory")
	tier := fs.String("tier", "quick", "quick|thorough")
	replay := fs.String("replay", "", "replay file: re-run the one obligation recorded there")
	evid := fs.String("evidence", "", "evidence file (default <verif>/evidence/<id>.json; '-' to skip)")
	verbose := fs.Bool("v", false, "print every obligation")
	only := fs.String("config", "", "restrict to one configuration")
	fs.Parse(args)
	start := time.Now()
	prop := registry[*propID]
	if prop == nil {
		fmt.Fprintln(os.Stderr, "unknown property", *propID)
		return 2
	}
	id := prop.Meta.ID
	seed := 0
	if s := os.Getenv("VERIF_SEED"); s != "" {
		seed, _ = strconv.Atoi(s)
	}
	configs := prop.Configs(*tier)
	var replayOb *Obligation
	if *replay != "" {
		b, err := os.ReadFile(*replay)
		if err != nil {
			fmt.Fprintln(os.Stderr, err)
			return 2
		}
		var ob Obligation
		if err := json.Unmarshal(b, &ob); err != nil {
			fmt.Fprintln(os.Stderr, err)
			return 2
		}
		replayOb = &ob
		if c, err := parseConfig(ob.Config); err == nil {
			configs = []Config{c}
		}
	}
	if *only != "" {
		c, err := parseConfig(*only)
		if err != nil {
			fmt.Fprintln(os.Stderr, err)
			return 2
		}
		configs = []Config{c}
	}
	self, _ := os.Executable()
	results := make([]*Result, len(configs))
	var wg sync.WaitGroup
	sem := make(chan struct{}, 8)
	for i, cfg := range configs {
		wg.Add(1)
		go func(i int, cfg Config) {
			defer wg.Done()
			sem <- struct{}{}
			defer func() { <-sem }()
			if len(configs) == 1 {
				results[i] = runSingle(prop, *repo, cfg, *tier)
				return
			}
			cmd := exec.Command(self, "single", "-prop", id, "-config", cfg.String(), "-repo", *repo, "-tier", *tier)
			cmd.Stderr = os.Stderr
			out, err := cmd.Output()
			r := &Result{Property: id, Config: cfg.String()}
			if err != nil {
				r.fail("sub-process for %s failed: %v", cfg, err)
			} else if err := json.Unmarshal(out, r); err != nil {
				r.fail("sub-process for %s produced unreadable output: %v", cfg, err)
			}
			results[i] = r
		}(i, cfg)
	}
	wg.Wait()

	known, err := loadKnown(filepath.Join(*verif, "KNOWN_FINDINGS.txt"))
	if err != nil {
		fmt.Fprintln(os.Stderr, "KNOWN_FINDINGS.txt:", err)
		return 1
	}
	fmt.Printf("== %s %s  tier=%s  configurations=%d\n", id, prop.Meta.Title, *tier, len(configs))
	violations := 0
	nKnown := 0
	type viol struct {
		ob  Obligation
		msg string
	}
	var viols []viol
	knownPrinted := map[string]bool{}
	hard := 0
	for _, r := range results {
		nOb, nOK := 0, 0
		for i := range r.Obligations {
			o := &r.Obligations[i]
			if o.Info {
				continue
			}
			nOb++
			if o.OK {
				nOK++
				continue
			}
			matched := false
			for _, k := range known {
				if k.Property == id && k.Key == o.Key {
					o.Known = k.Text
					matched = true
					nKnown++
					if !knownPrinted[o.Key] {
						knownPrinted[o.Key] = true
						fmt.Printf("KNOWN-FINDING: property=%s %s [%s at %s]\n", id, k.Text, o.Key, o.Pos)
					}
				}
			}
			if !matched {
				viols = append(viols, viol{*o, ""})
			}
		}
		fmt.Printf("-- %s: %d files, %d module functions, %d sites examined, %d obligations, %d discharged, %d positive controls\n",
			r.Config, len(r.Files), r.Funcs, r.Sites, nOb, nOK, r.Controls)
		if r.Config == results[0].Config || *verbose {
			for _, f := range r.Facts {
				fmt.Printf("   fact: %s\n", f)
			}
		}
		if *verbose {
			for _, o := range r.Obligations {
				st := "ok  "
				if !o.OK {
					st = "FAIL"
				}
				if o.Info {
					st = "info"
				}
				fmt.Printf("   [%s] %s  (%s)  %s\n        %s\n", st, o.Key, o.Pos, o.Desc, o.Witness)
			}
		}
		for _, e := range r.Errors {
			hard++
			fmt.Printf("ERROR %s: %s\n", r.Config, e)
		}
		floor := prop.Meta.MinObl
		if primaryOS := strings.SplitN(prop.Configs("quick")[0].String(), "/", 2)[0]; !strings.HasPrefix(r.Config, primaryOS+"/") {
			floor = 1 // the floor was confirmed by hand for the property's primary backend
		}
		if nOb < floor && len(r.Errors) == 0 {
			hard++
			fmt.Printf("ERROR %s: only %d obligations were generated, the floor confirmed by hand is %d (a rule matched nothing: vacuous)\n", r.Config, nOb, floor)
		}
	}
	if replayOb != nil {
		found := false
		for _, r := range results {
			for _, o := range r.Obligations {
				if o.Key == replayOb.Key {
					found = true
					st := "holds"
					if !o.OK {
						st = "VIOLATED"
					}
					fmt.Printf("replay %s [%s] %s: %s\n   at %s\n   %s\n", o.Key, o.Config, st, o.Desc, o.Pos, o.Witness)
				}
			}
		}
		if !found {
			fmt.Printf("replay: obligation %s is no longer generated on this tree\n", replayOb.Key)
		}
	}
	// report violations
	replayDir := filepath.Join(*verif, "evidence", "replay")
	seen := map[string]bool{}
	n := 0
	for _, v := range viols {
		o := v.ob
		fmt.Printf("FAIL %s [%s]\n   rule: %s\n   at:   %s\n   what: %s\n   why:  %s\n", o.Key, o.Config, o.Rule, o.Pos, o.Desc, o.Witness)
		if seen[o.Key] {
			continue
		}
		seen[o.Key] = true
		violations++
		n++
		path := filepath.Join(replayDir, fmt.Sprintf("%s-%d.json", id, n))
		if *evid != "-" {
			os.MkdirAll(replayDir, 0o755)
			b, _ := json.MarshalIndent(o, "", " ")
			os.WriteFile(path, append(b, '\n'), 0o644)
		}
		fmt.Printf("VIOLATION property=%s replay=%s\n", id, path)
	}
	if hard > 0 {
		violations += hard
		path := filepath.Join(replayDir, fmt.Sprintf("%s-error.json", id))
		if *evid != "-" {
			os.MkdirAll(replayDir, 0o755)
			b, _ := json.MarshalIndent(Obligation{Key: "checker|error", Rule: "checker", Desc: "the analysis could not be completed (unresolved anchor, undecided analysis, type error or vacuous rule): see output", Config: results[0].Config}, "", " ")
			os.WriteFile(path, append(b, '\n'), 0o644)
		}
		fmt.Printf("VIOLATION property=%s replay=%s\n", id, path)
	}
	wall := time.Since(start).Seconds()
	if *evid != "-" {
		path := *evid
		if path == "" {
			path = filepath.Join(*verif, "evidence", id+".json")
		}
		if err := writeEvidence(path, prop.Meta, *tier, seed, results, wall, violations, nKnown); err != nil {
			fmt.Fprintln(os.Stderr, "evidence:", err)
			return 1
		}
	}
	if violations > 0 {
		fmt.Printf("== %s: %d violation(s) (%.1fs)\n", id, violations, wall)
		return 1
	}
	fmt.Printf("== %s: holds on everything analysed (%.1fs)\n", id, wall)
	return 0
}

package main

import (
	"bufio"
	"encoding/json"
	"fmt"
	"os"
	"path/filepath"
	"regexp"
	"sort"
	"strings"
)

// Obligation is one instance of a rule. Key = rule|construct, semantic (never a line number).
type Obligation struct {
	Key     string `json:"key"`
	Rule    string `json:"rule"`
	Desc    string `json:"desc"`
	Pos     string `json:"pos,omitempty"` // for the reader only
	OK      bool   `json:"ok"`
	Witness string `json:"witness,omitempty"`
	Config  string `json:"config,omitempty"`
	Known   string `json:"known,omitempty"`
	// Info marks obligations that are reported but never fail (informational cross-checks)
	Info bool `json:"info,omitempty"`
}

// Result of one property on one configuration.
type Result struct {
	Property    string       `json:"property"`
	Config      string       `json:"config"`
	Obligations []Obligation `json:"obligations"`
	Sites       int          `json:"sites"`  // instructions / call sites examined
	Facts       []string     `json:"facts"`  // what was analysed
	Errors      []string     `json:"errors"` // hard failures: unresolved anchors, undecided analyses
	Funcs       int          `json:"funcs"`
	Files       []string     `json:"files"`
	Controls    int          `json:"controls"` // positive controls that fired as required
}

func (r *Result) fact(format string, a ...interface{}) {
	r.Facts = append(r.Facts, fmt.Sprintf(format, a...))
}
func (r *Result) fail(format string, a ...interface{}) {
	r.Errors = append(r.Errors, fmt.Sprintf(format, a...))
}
func (r *Result) ob(rule, construct, desc, pos string, ok bool, witness string) *Obligation {
	r.Obligations = append(r.Obligations, Obligation{Key: rule + "|" + construct, Rule: rule, Desc: desc, Pos: pos, OK: ok, Witness: witness, Config: r.Config})
	return &r.Obligations[len(r.Obligations)-1]
}

var atRe = regexp.MustCompile(`@[0-9]+\.t[0-9]+`)

// stripIDs removes context/instruction ids from a path so that it can be part of a key.
func stripIDs(s string) string { return atRe.ReplaceAllString(s, "") }

// ---------------------------------------------------------------------------

type knownFinding struct {
	Property, Key, Text string
}

func loadKnown(path string) ([]knownFinding, error) {
	f, err := os.Open(path)
	if err != nil {
		if os.IsNotExist(err) {
			return nil, nil
		}
		return nil, err
	}
	defer f.Close()
	var out []knownFinding
	sc := bufio.NewScanner(f)
	sc.Buffer(make([]byte, 1<<20), 1<<20)
	for sc.Scan() {
		line := strings.TrimSpace(sc.Text())
		if !strings.HasPrefix(line, "known:") {
			continue
		}
		rest := strings.TrimSpace(strings.TrimPrefix(line, "known:"))
		var kf knownFinding
		// known: property=<id> key=<rule|construct> :: <what fails>      (the key may contain spaces; " :: " ends it)
		if i := strings.Index(rest, " :: "); i >= 0 {
			kf.Text = strings.TrimSpace(rest[i+4:])
			rest = rest[:i]
		}
		if strings.HasPrefix(rest, "property=") {
			if j := strings.Index(rest, " key="); j >= 0 {
				kf.Property = strings.TrimPrefix(rest[:j], "property=")
				kf.Key = strings.TrimSpace(rest[j+5:])
			}
		}
		if kf.Property != "" && kf.Key != "" {
			out = append(out, kf)
		}
	}
	return out, sc.Err()
}

// ---------------------------------------------------------------------------
// Evidence

type evidence struct {
	PropertyID  string                 `json:"property_id"`
	Tier        string                 `json:"tier"`
	Seed        int                    `json:"seed"`
	Level       string                 `json:"level"`
	Coverage    map[string]interface{} `json:"coverage"`
	Assumptions []string               `json:"assumptions"`
	WallS       float64                `json:"wall_s"`
	Violations  int                    `json:"violations"`
}

type propMeta struct {
	ID          string
	Title       string
	Explanation string   // what is decided and what is not
	Rule        string   // how obligations are enumerated / what makes one non-trivial
	Assumptions []string // trusted base
	MinObl      int      // floor on obligations per configuration (non-vacuity)
}

func writeEvidence(path string, meta propMeta, tier string, seed int, results []*Result, wall float64, violations int, known int) error {
	nObl, nOK, sites := 0, 0, 0
	distinct := map[string]bool{}
	var samples []interface{}
	var cfgs []string
	var facts []string
	funcs := 0
	controls := 0
	fileset := map[string]bool{}
	for _, r := range results {
		cfgs = append(cfgs, r.Config)
		sites += r.Sites
		funcs += r.Funcs
		controls += r.Controls
		for _, f := range r.Files {
			fileset[f] = true
		}
		for _, o := range r.Obligations {
			if o.Info {
				continue
			}
			nObl++
			if o.OK || o.Known != "" {
				nOK++
			}
			distinct[o.Key] = true
		}
	}
	// samples: from the first configuration, up to 12 obligations (failing ones first)
	if len(results) > 0 {
		r := results[0]
		obs := append([]Obligation(nil), r.Obligations...)
		sort.SliceStable(obs, func(i, j int) bool { return !obs[i].OK && obs[j].OK })
		for i, o := range obs {
			if i >= 14 {
				break
			}
			samples = append(samples, map[string]interface{}{"key": o.Key, "desc": o.Desc, "pos": o.Pos, "ok": o.OK, "witness": o.Witness, "config": o.Config})
		}
		facts = r.Facts
		if len(facts) > 40 {
			facts = facts[:40]
		}
	}
	var errs []string
	for _, r := range results {
		for _, e := range r.Errors {
			errs = append(errs, r.Config+": "+e)
		}
	}
	ev := evidence{
		PropertyID: meta.ID, Tier: tier, Seed: seed, Level: "other",
		Coverage: map[string]interface{}{
			"explanation":         meta.Explanation,
			"rule":                meta.Rule,
			"obligations":         nObl,
			"discharged":          nOK,
			"evaluations":         sites,
			"distinct_nontrivial": len(distinct),
			"samples":             samples,
			"exhaustive":          true,
			"configurations":      cfgs,
			"functions_analysed":  funcs,
			"files_analysed":      sortedKeys(fileset),
			"facts":               facts,
			"positive_controls":   controls,
			"known_findings":      known,
			"errors":              errs,
			"checker_cmd":         "bin/check " + meta.ID + " " + tier,
			"trusted_base":        meta.Assumptions,
		},
		Assumptions: meta.Assumptions,
		WallS:       wall,
		Violations:  violations,
	}
	if samples == nil {
		ev.Coverage["samples"] = []interface{}{"(no obligations produced)"}
	}
	b, err := json.MarshalIndent(ev, "", " ")
	if err != nil {
		return err
	}
	if err := os.MkdirAll(filepath.Dir(path), 0o755); err != nil {
		return err
	}
	return os.WriteFile(path, append(b, '\n'), 0o644)
}

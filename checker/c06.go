package main

import (
	"go/token"
	"go/types"
	"sort"
	"strings"

	"golang.org/x/tools/go/ssa"
)

func init() {
	register(&property{
		Meta: propMeta{
			ID:    "C06",
			Title: "Close protocol: channels close, nothing is sent afterwards, API goes inert",
			Explanation: "Who-may-close / who-may-send enumeration and a monotone 'done is closed' typestate over the SSA of the inotify backend. " +
				"Decided: (1) Events and Errors are closed at exactly one site each, in the reader goroutine's deferred function, issued unconditionally at the reader's entry (so on all of its exits); every channel send on them lies in a send function reached only from the reader root, never from an API goroutine or another goroutine; " +
				"(2) on the first-closer path Close passes close(done) and then closes the notification file on every path; " +
				"(3) with isClosed() folded to true (sound: done has one writer, the constructor, and is never re-opened) the only reachable returns of AddWith/Remove/WatchList yield ErrClosed/nil/nil and no table access, lock or syscall is reachable in them, and Add reaches AddWith; " +
				"(4) done, the channels and the reader-exit channel are stored only by constructor code and closed at a single site each; " +
				"(5) every blocking channel operation of the reader is a select with a done case, so a reader parked in a send is released by Close and reaches its deferred close. " +
				"Not decided: promptness of the close; select fairness; events already buffered in the channel.",
			Rule:        "obligations per close site, per send site and calling root, per API method under the closed typestate, per channel field writer; non-trivial = site exists in production configuration",
			Assumptions: []string{"go/types + go/ssa", "deferred functions run on every exit of the function that issued them", "production folding (E-F) re-verified each run"},
			MinObl:      15,
		},
		Configs: tiered(linuxQuick, linuxAll),
		Run:     runC06,
	})
}

func runC06(p *Program, e *Engine, r *Result, tier string) {
	a := newAn(p, e, r, true)
	if a == nil {
		return
	}
	ro := a.Ro
	if !a.require(ro.Done != nil, "done channel") || !a.require(len(ro.CloseFns) == 1, "single close(done) function") ||
		!a.require(len(ro.Readers) == 1, "exactly one reader goroutine, found %v", fnNames(ro.Readers)) ||
		!a.require(len(ro.SendEvent) >= 1 && len(ro.SendError) >= 1, "send functions") {
		return
	}
	c06Closers(a)
	c06Senders(a, "C06.1")
	c06CloseOrder(a)
	c06Inert(a)
	c06Wrappers(a)
	c06Writers(a)
	// (5) the reader can always reach its deferred close: its blocking channel operations are released by close(done)
	c05R2(a, "C06.5", a.Ro.Readers)
	// (6) "both channels are closed promptly": the first closer must get through the bookkeeping mutex to reach
	// close(done); a send parked while that mutex is held (nobody reading Errors or Events) keeps Close out for ever,
	// so done is never closed and neither are the channels. Shared with C05.R1.
	c05R1(a, "C06.6")
}

func chanKind(ro *Roles, t types.Type) string {
	ch, ok := t.Underlying().(*types.Chan)
	if !ok {
		return ""
	}
	if types.Identical(ch.Elem(), ro.Event) {
		return "Events"
	}
	if isErrorType(ch.Elem()) {
		return "Errors"
	}
	if isEmptyStruct(ch.Elem()) {
		return "signal"
	}
	return ""
}

// c06Closers: close sites of the event/error channels.
func c06Closers(a *An) {
	ro := a.Ro
	reader := ro.Readers[0]
	// all close sites in the package
	type site struct {
		fn   *ssa.Function
		in   ssa.Instruction
		kind string
	}
	var sites []site
	for _, fn := range a.P.srcFuncs(a.P.Main) {
		for _, b := range fn.Blocks {
			for _, in := range b.Instrs {
				if args, ok := isBuiltinCall(in, "close"); ok && len(args) == 1 {
					k := chanKind(ro, args[0].Type())
					if k == "Events" || k == "Errors" {
						sites = append(sites, site{fn, in, k})
					}
				}
			}
		}
	}
	// sites visited in the reader's deferred function at depth 1
	w := a.walk(reader)
	inReaderDefer := map[ssa.Instruction]bool{}
	for _, v := range w.Visits {
		if v.InDefer && v.Ctx.Parent != nil && v.Ctx.Parent.Parent == nil {
			inReaderDefer[v.Instr] = true
		}
	}
	// the defer is issued in the reader's entry block before anything can return
	deferAtEntry := false
	if len(reader.Blocks) > 0 {
		for _, in := range reader.Blocks[0].Instrs {
			if _, ok := in.(*ssa.Defer); ok {
				deferAtEntry = true
			}
		}
	}
	count := map[string]int{}
	for _, s := range sites {
		count[s.kind]++
		ok := inReaderDefer[s.in] && deferAtEntry
		a.R.ob("C06.1", "close("+s.kind+")@"+shortFn(s.fn), "the "+s.kind+" channel may be closed only by the reader goroutine's deferred function (a close from an API goroutine races with the reader's sends: panic)",
			a.P.instrPos(s.in), ok, sprintf("in reader's deferred function: %v; defer issued in the reader's entry block: %v", inReaderDefer[s.in], deferAtEntry))
	}
	for _, k := range []string{"Events", "Errors"} {
		a.R.ob("C06.1", "close("+k+")#count", "exactly one close site for the "+k+" channel (consumer loops terminate; no double close)", "-", count[k] == 1, sprintf("%d site(s)", count[k]))
	}
}

// c06Senders: every send on Events/Errors is reached only from the reader root.
func c06Senders(a *An, rule string) {
	ro := a.Ro
	reader := ro.Readers[0]
	type agg struct {
		pos   string
		roots map[string]bool
		desc  string
	}
	sends := map[string]*agg{}
	addRoot := func(root *ssa.Function, label string) {
		w := a.walk(root)
		for _, v := range w.Visits {
			var kinds []string
			switch x := v.Instr.(type) {
			case *ssa.Send:
				kinds = append(kinds, chanKind(ro, x.Chan.Type()))
			case *ssa.Select:
				for _, s := range x.States {
					if s.Dir == types.SendOnly {
						kinds = append(kinds, chanKind(ro, s.Chan.Type()))
					}
				}
			}
			for _, k := range kinds {
				if k != "Events" && k != "Errors" {
					continue
				}
				key := "send(" + k + ")@" + shortFn(v.Instr.Parent())
				if sends[key] == nil {
					sends[key] = &agg{pos: a.P.instrPos(v.Instr), roots: map[string]bool{}}
				}
				sends[key].roots[label+" via "+v.Ctx.chain()] = root != reader
			}
		}
		// goroutines started from this root are roots of their own
		for _, g := range w.GoRoots {
			if root == ro.Ctor && g.Fn == reader {
				continue
			}
			key := "go@" + shortFn(g.Site.Parent()) + "->" + shortFn(g.Fn)
			a.R.ob(rule, key, "no goroutine other than the single reader may be started (it could send after the channels are closed, or reorder events)",
				a.P.instrPos(g.Site), false, "go statement reached from "+label)
		}
	}
	addRoot(ro.Ctor, "constructor")
	addRoot(reader, "reader")
	for _, m := range a.apiRoots() {
		addRoot(m, "API "+m.Name())
	}
	var keys []string
	for k := range sends {
		keys = append(keys, k)
	}
	sort.Strings(keys)
	for _, k := range keys {
		s := sends[k]
		var bad, all []string
		for r, isBad := range s.roots {
			all = append(all, r)
			if isBad {
				bad = append(bad, r)
			}
		}
		sort.Strings(all)
		sort.Strings(bad)
		wit := sprintf("reached from: %s", fmtList(all))
		if len(bad) > 0 {
			wit = sprintf("also reached from a non-reader goroutine: %s", fmtList(bad))
		}
		a.R.ob(rule, k, "a send on a notification channel must be executed by the reader goroutine only (the reader closes the channels on exit; any other sender can hit a closed channel)",
			s.pos, len(bad) == 0, wit)
	}
	if len(keys) == 0 {
		a.R.fail("no send on Events/Errors found from any root (vacuous)")
	}
}

// c06CloseOrder: first-closer path of Close: close(done) then file close, on every path.
func c06CloseOrder(a *An) {
	ro := a.Ro
	cl := ro.API["Close"]
	closeFn := ro.CloseFns[0]
	w := a.walk(cl)
	var closeCall, fileClose *Visit
	for _, v := range w.Visits {
		if _, ok := v.Instr.(*ssa.Call); !ok || v.Ctx.inChain(closeFn) {
			continue
		}
		cal := visitCallee(v)
		if cal == closeFn && closeCall == nil {
			closeCall = v
		}
		if cal != nil && fullName(cal) == "(*os.File).Close" && fileClose == nil {
			fileClose = v
		}
	}
	if closeCall == nil {
		a.R.ob("C06.2", "Close:close(done)", "Close calls the function that closes done", a.P.pos(cl.Pos()), false, "no such call reachable from Close")
		return
	}
	if fileClose == nil {
		a.R.ob("C06.2", "Close:file-close", "Close closes the notification file (this is what wakes the reader so that it closes the channels)", a.P.pos(cl.Pos()), false, "no (*os.File).Close call reachable from Close")
		return
	}
	// must-pass: first-closer condition implies the file close's reaching condition
	var firstLit *Lit
	for _, c := range fileClose.Cond {
		for _, l := range c {
			if l.A.Kind == AkPred && l.A.Callee == closeFn {
				ll := Lit{A: l.A, Neg: true}
				firstLit = &ll
			}
		}
	}
	ok := false
	wit := "file close is not conditioned on the result of close(): " + stripIDs(fileClose.Cond.String())
	if fileClose.Cond.isTrue() {
		ok, wit = true, "unconditional"
	} else if firstLit != nil {
		T := DNF{Conj{firstLit.A.ID(): *firstLit}}
		h, counter, err := implies(T, fileClose.Cond)
		if err != nil {
			a.R.fail("C06.2: %v", err)
		}
		ok = h
		wit = sprintf("first-closer condition %s => reaching condition %s", stripIDs(T.String()), stripIDs(fileClose.Cond.String()))
		if !h {
			wit += "; counterexample " + stripIDs(counter)
		}
	}
	a.R.ob("C06.2", "Close:file-close", "on the first-closer path Close closes the notification file on every path", a.P.instrPos(fileClose.Instr), ok, wit)
	c06CloseMark(a, closeFn)
	a.R.ob("C06.2", "Close:order", "close(done) precedes the file close (the reader must see 'closed' when its read is interrupted)", a.P.instrPos(fileClose.Instr),
		precedesAlways(closeCall, fileClose), "the close(done) call comes first on every path to the file close")
}

// c06CloseMark: the function that closes done tells the truth: it answers "already closed" only when done is closed,
// and "first closer" only after it closed done itself. (Close relies on that answer to decide whether to release anything.)
func c06CloseMark(a *An, closeFn *ssa.Function) {
	ro := a.Ro
	w := a.walk(closeFn)
	var cd *Visit
	for _, v := range w.Visits {
		if args, ok := isBuiltinCall(v.Instr, "close"); ok && len(args) == 1 && v.Ctx.fieldOfValue(args[0]) == ro.Done {
			cd = v
		}
	}
	isClosedLit := func(l Lit) bool { t, closed := ro.closedLit(l); return t && closed }
	nRet := 0
	var bad []string
	for _, v := range w.Visits {
		r, isRet := v.Instr.(*ssa.Return)
		if !isRet || v.Ctx.Parent != nil {
			continue
		}
		if len(r.Results) != 1 {
			bad = append(bad, "unrecognised result shape at "+a.P.instrPos(r))
			continue
		}
		for _, e := range valueEdges(v.Ctx, r.Results[0], v.Cond) {
			nRet++
			cond := e.Cond
			val := "?"
			if k, isK := e.V.(*ssa.Const); isK && k.Value != nil {
				val = k.Value.String()
			} else if call, isCall := e.V.(*ssa.Call); isCall {
				isTest := false
				if cal := e.Ctx.calleeOf(&call.Call); cal != nil {
					if i, isT := ro.ChanTesters[cal]; isT && i < len(call.Call.Args) && e.Ctx.fieldOfValue(call.Call.Args[i]) == ro.Done {
						isTest = true
					}
				}
				if cal := e.Ctx.calleeOf(&call.Call); cal != nil && (ro.isIsClosed(cal) || isTest) {
					// the answer is isClosed() itself: true is truthful by definition; look at the false case
					at, neg := e.Ctx.atom(call)
					if at != nil {
						cond = safeAndDNF(cond, DNF{Conj{at.ID(): Lit{A: at, Neg: !neg}}})
						val = "false"
						nRet++ // this one edge stands for both answers
					}
				}
			}
			switch val {
			case "true":
				if okc, ctr := cond.everyConj(func(c Conj) bool { return c.has(isClosedLit) }); !okc {
					w := ""
					if ctr != nil {
						w = stripIDs(ctr.String())
					}
					bad = append(bad, sprintf("%s answers 'already closed' although done need not be closed, under %s", a.P.instrPos(r), w))
				}
			case "false":
				if cd == nil || cd.Seq > v.Seq {
					bad = append(bad, sprintf("%s answers 'first closer' without a preceding close(done)", a.P.instrPos(r)))
				} else if h, ctr, err := implies(cond, cd.Cond); err != nil || !h {
					bad = append(bad, sprintf("%s answers 'first closer' although close(done) is skipped when %s", a.P.instrPos(r), stripIDs(ctr)))
				}
			default:
				bad = append(bad, sprintf("%s returns an unrecognised value %s", a.P.instrPos(r), stripIDs(e.Ctx.path(e.V))))
			}
		}
	}
	a.R.ob("C06.2", shortFn(closeFn)+":truthful", "the close-marking function answers 'already closed' only when done is closed, and 'first closer' only after closing done itself (otherwise a Close returns having released nothing)",
		a.P.pos(closeFn.Pos()), len(bad) == 0 && nRet >= 2, sprintf("%d result edge(s) examined; %s", nRet, strings.Join(bad, "; ")))
}

// underClosed filters a DNF by the typestate "done is closed": isClosed() is true.
func underClosed(ro *Roles, d DNF) DNF {
	var out DNF
	for _, c := range d {
		dead := false
		for _, l := range c {
			if t, closed := ro.closedLit(l); t && !closed {
				dead = true
			}
		}
		if !dead {
			out = append(out, c)
		}
	}
	return out
}

// c06Wrappers: the exported methods of Watcher answer nothing by themselves: every return hands on the result of the
// backend's method of the same role (or of another wrapper), so that what a closed backend answers is what the user gets.
func c06Wrappers(a *An) {
	ro := a.Ro
	for _, name := range []string{"Add", "AddWith", "Remove", "WatchList", "Close"} {
		m := a.P.method(ro.Watcher, name)
		if m == nil || m.Blocks == nil {
			continue
		}
		var own []string
		nRet := 0
		for _, b := range m.Blocks {
			r, ok := b.Instrs[len(b.Instrs)-1].(*ssa.Return)
			if !ok {
				continue
			}
			nRet++
			for _, res := range r.Results {
				call, isCall := stripConv(res).(*ssa.Call)
				deleg := false
				if isCall {
					if call.Call.IsInvoke() {
						deleg = true // a method of the backend interface
					} else if cal := call.Call.StaticCallee(); cal != nil && cal.Signature.Recv() != nil && deref(cal.Signature.Recv().Type()) == types.Type(ro.Watcher) {
						deleg = true // another wrapper
					}
				}
				if !deleg {
					own = append(own, a.P.instrPos(r)+" returns "+res.String())
				}
			}
		}
		a.R.ob("C06.3", "wrapper("+name+")", "the exported method only hands on what the backend answers (it has no answer of its own that could differ once the Watcher is closed)", a.P.pos(m.Pos()), len(own) == 0 && nRet >= 1,
			sprintf("%d return(s); own answers: %s", nRet, fmtList(own)))
	}
}

func c06Inert(a *An) {
	ro := a.Ro
	want := map[string]string{"AddWith": "ErrClosed", "Remove": "nil", "WatchList": "nil"}
	for _, name := range []string{"AddWith", "Remove", "WatchList"} {
		m := ro.API[name]
		if m == nil {
			a.R.fail("anchor unresolved: API method %s", name)
			continue
		}
		w := a.walk(m)
		nRet := 0
		var bad []string
		var effects []string
		for _, v := range w.Visits {
			live := underClosed(ro, v.Cond)
			if live.isFalse() {
				continue
			}
			switch x := v.Instr.(type) {
			case *ssa.Return:
				if v.Ctx.Parent != nil {
					continue
				}
				nRet++
				got := "?"
				if len(x.Results) == 1 {
					org := origins(v.Ctx, x.Results[0], 0)
					got = strings.Join(org, "|")
				}
				if got != want[name] {
					bad = append(bad, sprintf("%s returns %s", a.P.instrPos(x), got))
				}
			case *ssa.Lookup, *ssa.MapUpdate, *ssa.Range:
				effects = append(effects, sprintf("%s %s", a.P.instrPos(v.Instr), v.Instr.String()))
			case *ssa.Call:
				cal := v.Ctx.calleeOf(&x.Call)
				if cal == nil {
					if _, ok := isBuiltinCall(x, "delete"); ok {
						effects = append(effects, sprintf("%s delete", a.P.instrPos(x)))
					}
					continue
				}
				if acq, _ := lockOp(cal); acq {
					effects = append(effects, sprintf("%s %s", a.P.instrPos(x), fullName(cal)))
				}
				if pk := fnPkg(cal); pk != nil && (strings.HasPrefix(pk.Pkg.Path(), "golang.org/x/sys/") || pk.Pkg.Path() == "syscall") {
					effects = append(effects, sprintf("%s syscall %s", a.P.instrPos(x), fullName(cal)))
				}
			}
		}
		ok := nRet >= 1 && len(bad) == 0
		wit := sprintf("%d return(s) reachable once closed, all yield %s", nRet, want[name])
		if !ok {
			wit = sprintf("%d return(s) reachable once closed; %s", nRet, strings.Join(bad, "; "))
		}
		a.R.ob("C06.3", name+":result", "after Close, "+name+" returns "+want[name], a.P.pos(m.Pos()), ok, wit)
		a.R.ob("C06.3", name+":inert", "after Close, "+name+" touches no table, takes no lock and makes no syscall", a.P.pos(m.Pos()), len(effects) == 0,
			sprintf("reachable effects once closed: %s", fmtList(uniq(effects))))
	}
	// Add reaches AddWith
	if add := ro.API["Add"]; add != nil {
		w := a.walk(add)
		found := false
		for _, v := range w.Visits {
			if visitCallee(v) == ro.API["AddWith"] && v.Cond.isTrue() {
				found = true
			}
		}
		a.R.ob("C06.3", "Add:delegates", "Add unconditionally delegates to AddWith (and so inherits its closed guard)", a.P.pos(add.Pos()), found, "")
	}
}

// origins classifies where a value comes from (engine E-E): returns a sorted list of origin labels.
func origins(c *Ctx, v ssa.Value, depth int) []string {
	seen := map[string]bool{}
	var walk func(c *Ctx, v ssa.Value, d int)
	visited := map[ssa.Value]bool{}
	walk = func(c *Ctx, v ssa.Value, d int) {
		if d > 12 {
			seen["?deep"] = true
			return
		}
		rv, rc := c.resolve(v)
		if visited[rv] {
			return
		}
		visited[rv] = true
		switch x := rv.(type) {
		case *ssa.Const:
			if x.Value == nil {
				seen["nil"] = true
			} else {
				seen["const:"+x.Value.ExactString()] = true
			}
		case *ssa.Global:
			seen[x.Name()] = true
		case *ssa.UnOp:
			if g, ok := x.X.(*ssa.Global); ok {
				seen[g.Name()] = true
				return
			}
			// a local variable assigned in several places, or inside a local closure that this function runs
			// (`w.locked(func() { entries = append(entries, p) })`): every value ever stored into it
			addr, actx := rc.resolve(x.X) // the cell itself, or a closure's captured reference to it
			if al, ok := addr.(*ssa.Alloc); ok && x.Op == token.MUL && !cellEscapes(al) && !fieldStored(al) {
				if sts := cellStores(al); len(sts) > 0 {
					okAll := true
					for _, st := range sts {
						sc := actx
						if st.Parent() != al.Parent() {
							sc = findKidCtx(actx, st.Parent())
						}
						if sc == nil {
							okAll = false
							break
						}
						walk(sc, st.Val, d+1)
					}
					if okAll {
						if al.Comment != "" || true {
							// the variable's zero value (nil) may also reach the load
							if _, isRef := deref(al.Type()).Underlying().(*types.Basic); !isRef {
								seen["nil"] = true
							}
						}
						return
					}
				}
			}
			seen["load:"+stripIDs(rc.path(x))] = true
		case *ssa.Phi:
			for _, e := range x.Edges {
				walk(rc, e, d+1)
			}
		case *ssa.Extract:
			if call, ok := x.Tuple.(*ssa.Call); ok {
				walkCallResults(rc, call, x.Index, d, walk, seen)
				return
			}
			seen["extract:"+stripIDs(rc.path(x))] = true
		case *ssa.Call:
			if args, ok := isBuiltinCall(x, "append"); ok && len(args) >= 1 {
				walk(rc, args[0], d+1)
				return
			}
			walkCallResults(rc, x, 0, d, walk, seen)
		case *ssa.MakeSlice, *ssa.MakeMap, *ssa.MakeChan:
			seen["make"] = true
		case *ssa.Parameter:
			seen["param:"+x.Name()] = true
		case *ssa.MakeInterface:
			walk(rc, x.X, d+1)
		case *ssa.Alloc:
			seen["alloc"] = true
		case *ssa.Slice:
			walk(rc, x.X, d+1)
		default:
			seen["value:"+stripIDs(rc.path(rv))] = true
		}
	}
	walk(c, v, depth)
	var out []string
	for k := range seen {
		out = append(out, k)
	}
	sort.Strings(out)
	return out
}

// findKidCtx: a context of fn among the (already created) descendants of c.
func findKidCtx(c *Ctx, fn *ssa.Function) *Ctx {
	var found *Ctx
	var rec func(x *Ctx, depth int)
	rec = func(x *Ctx, depth int) {
		if found != nil || depth > 6 {
			return
		}
		for _, m := range x.kids {
			for _, k := range m {
				if k.Fn == fn {
					found = k
					return
				}
				rec(k, depth+1)
			}
		}
	}
	rec(c, 0)
	return found
}

func walkCallResults(c *Ctx, call *ssa.Call, idx int, d int, walk func(*Ctx, ssa.Value, int), seen map[string]bool) {
	k := c.calleeCtx(call, &call.Call)
	if k == nil {
		name := "?"
		if cal := c.calleeOf(&call.Call); cal != nil {
			name = fullName(cal)
			// error wrapping: %w operands of fmt.Errorf
			if name == "fmt.Errorf" {
				// an error built with %w keeps its cause visible to errors.Is: report the cause(s);
				// without %w it is a freshly constructed error that hides whatever it was built from.
				ws := wrappedOperands(c, call)
				if len(ws) == 0 {
					seen["call:fmt.Errorf"] = true
				}
				for _, w := range ws {
					for _, o := range origins(c, w, d+1) {
						seen["wraps:"+o] = true
					}
				}
				return
			}
		} else if call.Call.IsInvoke() {
			name = "invoke " + call.Call.Method.Name()
		}
		seen["call:"+name] = true
		return
	}
	conds, _ := k.conds()
	for _, b := range k.Fn.Blocks {
		if len(b.Instrs) == 0 {
			continue
		}
		if r, ok := b.Instrs[len(b.Instrs)-1].(*ssa.Return); ok && idx < len(r.Results) {
			if conds != nil {
				if dd, ok := conds[b]; !ok || dd.isFalse() {
					continue
				}
			}
			walk(k, r.Results[idx], d+1)
		}
	}
}

// wrappedOperands: operands of fmt.Errorf corresponding to %w verbs (by position), or all operands if the format is not constant.
func wrappedOperands(c *Ctx, call *ssa.Call) []ssa.Value {
	args := call.Call.Args
	if len(args) < 2 {
		return nil
	}
	var ops []ssa.Value
	// variadic slice: find stores into the backing array
	sl, ok := args[1].(*ssa.Slice)
	if !ok {
		return nil
	}
	al, ok := sl.X.(*ssa.Alloc)
	if !ok {
		return nil
	}
	elems := map[int64]ssa.Value{}
	if refs := al.Referrers(); refs != nil {
		for _, r := range *refs {
			if ia, ok := r.(*ssa.IndexAddr); ok {
				idx, okk := constUint(ia.Index)
				if !okk {
					continue
				}
				if rr := ia.Referrers(); rr != nil {
					for _, u := range *rr {
						if st, ok := u.(*ssa.Store); ok && st.Addr == ssa.Value(ia) {
							elems[int64(idx)] = st.Val
						}
					}
				}
			}
		}
	}
	format := ""
	if k, ok := args[0].(*ssa.Const); ok && k.Value != nil {
		format = k.Value.ExactString()
	}
	verbIdx := 0
	for i := 0; i+1 < len(format); i++ {
		if format[i] != '%' {
			continue
		}
		if format[i+1] == '%' {
			i++
			continue
		}
		// skip flags/width
		j := i + 1
		for j < len(format) && strings.ContainsRune("+-# 0123456789.", rune(format[j])) {
			j++
		}
		if j < len(format) {
			if format[j] == 'w' {
				if v, ok := elems[int64(verbIdx)]; ok {
					ops = append(ops, v)
				}
			}
			verbIdx++
		}
		i = j
	}
	return ops
}

// c06Writers: channel fields are written by constructor code only; signal channels closed at one site.
func c06Writers(a *An) {
	ro := a.Ro
	// functions reachable from the constructor (without following go)
	ctorFns := map[*ssa.Function]bool{}
	w := a.walk(ro.Ctor)
	for _, v := range w.Visits {
		ctorFns[v.Instr.Parent()] = true
	}
	chanFields := map[*types.Var]bool{}
	for f, st := range ro.StructOf {
		if st == ro.Watcher {
			continue
		}
		if _, ok := f.Type().Underlying().(*types.Chan); ok {
			chanFields[f] = true
		}
	}
	// every reference-typed field of the backend and of the structs it holds (pointers to the tables, maps, files,
	// embedded structs): assigned during construction only. An API call that passed the closed test just before Close
	// still gets valid tables when it obtains the lock (no nil table, no swapped-in empty one).
	refFields := map[*types.Var]bool{}
	for f, st := range ro.StructOf {
		if st == ro.Watcher || chanFields[f] {
			continue
		}
		switch f.Type().Underlying().(type) {
		case *types.Pointer, *types.Map, *types.Interface, *types.Signature:
			refFields[f] = true
		}
	}
	refBad := map[*types.Var][]string{}
	refWriters := map[*types.Var]int{}
	for _, fn := range a.P.srcFuncs(a.P.Main) {
		for _, b := range fn.Blocks {
			for _, in := range b.Instrs {
				if x, ok := in.(*ssa.Store); ok {
					if fa, ok := x.Addr.(*ssa.FieldAddr); ok {
						if f := fieldOf(fa); f != nil && refFields[f] {
							// a store into a freshly allocated struct is construction of that struct wherever it happens
							if al, isAl := fa.X.(*ssa.Alloc); isAl && al.Heap || ctorFns[fn] {
								refWriters[f]++
								continue
							}
							refBad[f] = append(refBad[f], a.P.instrPos(in)+" in "+shortFn(fn))
						}
					}
				}
			}
		}
	}
	var rfs []*types.Var
	for f := range refFields {
		if ro.StructOf[f] == ro.Backend || (ro.Done != nil && ro.StructOf[f] == ro.StructOf[ro.Done]) {
			rfs = append(rfs, f)
		}
	}
	sort.Slice(rfs, func(i, j int) bool { return fieldStr(ro, rfs[i]) < fieldStr(ro, rfs[j]) })
	for _, f := range rfs {
		a.R.ob("C06.4", "ref-writers("+fieldStr(ro, f)+")", "a reference-typed field of the backend (table holder, file, embedded struct) is assigned during construction only: API calls racing with Close never see it replaced or nil", "-",
			len(refBad[f]) == 0, sprintf("%d constructor store(s); outside construction: %s", refWriters[f], fmtList(refBad[f])))
	}
	writers := map[*types.Var][]string{}
	bad := map[*types.Var][]string{}
	closes := map[*types.Var][]string{}
	for _, fn := range a.P.srcFuncs(a.P.Main) {
		for _, b := range fn.Blocks {
			for _, in := range b.Instrs {
				switch x := in.(type) {
				case *ssa.Store:
					if fa, ok := x.Addr.(*ssa.FieldAddr); ok {
						f := fieldOf(fa)
						if chanFields[f] {
							writers[f] = append(writers[f], shortFn(fn))
							if !ctorFns[fn] {
								bad[f] = append(bad[f], a.P.instrPos(in)+" in "+shortFn(fn))
							}
						}
					}
				default:
					if args, ok := isBuiltinCall(in, "close"); ok && len(args) == 1 {
						if f := fieldOf(args[0]); f != nil && chanFields[f] {
							closes[f] = append(closes[f], a.P.instrPos(in)+" in "+shortFn(fn))
						}
					}
					// a call of a method that closes its channel receiver, on a channel field
					if call, ok := in.(*ssa.Call); ok && call.Call.StaticCallee() != nil {
						if i, isC := ro.ChanClosers[call.Call.StaticCallee()]; isC && i < len(call.Call.Args) {
							if f := fieldOf(call.Call.Args[i]); f != nil && chanFields[f] {
								closes[f] = append(closes[f], a.P.instrPos(in)+" in "+shortFn(fn))
							}
						}
					}
				}
			}
		}
	}
	var fs []*types.Var
	for f := range chanFields {
		if ro.StructOf[f] == ro.Backend || (ro.Done != nil && ro.StructOf[f] == ro.StructOf[ro.Done]) {
			fs = append(fs, f)
		}
	}
	sort.Slice(fs, func(i, j int) bool { return fieldStr(ro, fs[i]) < fieldStr(ro, fs[j]) })
	for _, f := range fs {
		a.R.ob("C06.4", "writers("+fieldStr(ro, f)+")", "channel field is stored only by constructor code (immutable after publish)", "-", len(bad[f]) == 0 && len(writers[f]) >= 1,
			sprintf("writers: %s; outside constructor: %s", fmtList(uniq(writers[f])), fmtList(bad[f])))
		if isChanOf(f.Type(), isEmptyStruct) {
			a.R.ob("C06.4", "close-sites("+fieldStr(ro, f)+")", "signal channel is closed at exactly one site", "-", len(closes[f]) == 1, sprintf("close sites: %s", fmtList(closes[f])))
		}
	}
}

package main

// Bookkeeping-table operations of the inotify backend and their pairing (C04.3, C09, C12).

import (
	"go/token"
	"go/types"
	"sort"
	"strings"

	"golang.org/x/tools/go/ssa"
)

type tableOp struct {
	Kind  string // "delete", "update"
	Table *types.Var
	Key   string // canonical path of the key (ids stripped)
	Val   string // for updates
	KeyV  ssa.Value
	ValV  ssa.Value
	V     *Visit
}

type tableFacts struct {
	wdTable   *types.Var // wd -> *watch
	pathTable *types.Var // path -> wd
	watchT    *types.Named
}

func findTables(a *An) *tableFacts {
	tf := &tableFacts{}
	for _, t := range a.Ro.Tables {
		m := t.Type().Underlying().(*types.Map)
		if p, ok := m.Elem().Underlying().(*types.Pointer); ok {
			if n, ok := p.Elem().(*types.Named); ok {
				if _, isStruct := n.Underlying().(*types.Struct); isStruct {
					tf.wdTable = t
					tf.watchT = n
				}
			}
		}
		if isString(m.Key()) && isUintType(m.Elem()) {
			tf.pathTable = t
		}
	}
	if tf.wdTable == nil || tf.pathTable == nil {
		a.R.fail("anchor unresolved: the wd table (map to *watch) and the path table (map string->wd); tables found: %v", varNames(a.Ro, a.Ro.Tables))
		return nil
	}
	return tf
}

func collectTableOps(a *An, tf *tableFacts, w *Walker) []tableOp {
	return expandElementKeys(w, collectTableOps0(a, tf, w))
}

// expandElementKeys: an operation whose key is (built from) an element of a local slice stands for one operation per
// value put into that slice, under the condition of putting it there ("collect the paths first, then drop each").
func expandElementKeys(w *Walker, ops []tableOp) []tableOp {
	type src struct {
		path string
		cond DNF
	}
	elems := map[string][]src{}
	undecided := map[string]bool{}
	visitOfInstr := map[*Ctx]map[ssa.Instruction]*Visit{}
	for _, v := range w.Visits {
		if visitOfInstr[v.Ctx] == nil {
			visitOfInstr[v.Ctx] = map[ssa.Instruction]*Visit{}
		}
		visitOfInstr[v.Ctx][v.Instr] = v
	}
	for _, v := range w.Visits {
		ld, ok := v.Instr.(*ssa.UnOp)
		if !ok || ld.Op != token.MUL {
			continue
		}
		ia, ok := ld.X.(*ssa.IndexAddr)
		if !ok {
			continue
		}
		if _, isSlice := ia.X.Type().Underlying().(*types.Slice); !isSlice {
			continue
		}
		e := stripIDs(v.Ctx.path(ld))
		if _, done := elems[e]; done || undecided[e] {
			continue
		}
		// is this element used in any key at all?
		used := false
		for _, op := range ops {
			if strings.Contains(op.Key, e) || strings.Contains(op.Val, e) {
				used = true
			}
		}
		if !used {
			continue
		}
		bv, bc := v.Ctx.resolve(ia.X)
		ins, complete := sliceInserted(bc, bv)
		if !complete || len(ins) == 0 {
			undecided[e] = true
			continue
		}
		for _, in := range ins {
			cond := dnfTrue()
			if sv := visitOfInstr[in.c][in.st]; sv != nil {
				cond = sv.Cond
			}
			elems[e] = append(elems[e], src{stripIDs(in.c.path(in.v)), cond})
		}
	}
	if len(elems) == 0 {
		return ops
	}
	var out []tableOp
	for _, op := range ops {
		expanded := false
		for e, srcs := range elems {
			if !strings.Contains(op.Key, e) && !strings.Contains(op.Val, e) {
				continue
			}
			expanded = true
			for _, s := range srcs {
				nv := *op.V
				nv.Cond = safeAndDNF(op.V.Cond, s.cond)
				if nv.Cond.isFalse() {
					continue
				}
				no := op
				no.Key = strings.ReplaceAll(op.Key, e, s.path)
				no.Val = strings.ReplaceAll(op.Val, e, s.path)
				no.V = &nv
				out = append(out, no)
			}
			break
		}
		if !expanded {
			out = append(out, op)
		}
	}
	return out
}

// expandElementStrings is expandElementKeys for a plain set of key paths (path -> position).
func expandElementStrings(w *Walker, keys map[string]string) map[string]string {
	var ops []tableOp
	for k, pos := range keys {
		ops = append(ops, tableOp{Key: k, Val: pos, V: &Visit{Cond: dnfTrue()}})
	}
	out := map[string]string{}
	for _, op := range expandElementKeys(w, ops) {
		out[op.Key] = op.Val
	}
	return out
}

func collectTableOps0(a *An, tf *tableFacts, w *Walker) []tableOp {
	var out []tableOp
	for _, v := range w.Visits {
		switch x := v.Instr.(type) {
		case *ssa.MapUpdate:
			f := v.Ctx.fieldOfValue(x.Map)
			if f == tf.wdTable || f == tf.pathTable {
				out = append(out, tableOp{Kind: "update", Table: f, Key: stripIDs(v.Ctx.path(x.Key)), Val: stripIDs(v.Ctx.path(x.Value)), KeyV: x.Key, ValV: x.Value, V: v})
			}
		case *ssa.Call:
			if args, ok := isBuiltinCall(x, "delete"); ok && len(args) == 2 {
				f := v.Ctx.fieldOfValue(args[0])
				if f == tf.wdTable || f == tf.pathTable {
					out = append(out, tableOp{Kind: "delete", Table: f, Key: stripIDs(v.Ctx.path(args[1])), KeyV: args[1], V: v})
				}
			}
		}
	}
	return out
}

// entryOf: "E" when key is E.wd / E.path (a field of a watch entry expression).
func entryOf(key, field string) (string, bool) {
	if strings.HasSuffix(key, "."+field) {
		return strings.TrimSuffix(key, "."+field), true
	}
	return "", false
}

func (tf *tableFacts) watchFields() (wdField, pathField string) {
	st := tf.watchT.Underlying().(*types.Struct)
	for i := 0; i < st.NumFields(); i++ {
		f := st.Field(i)
		if isString(f.Type()) && pathField == "" {
			pathField = f.Name()
		}
		if isUintType(f.Type()) && wdField == "" {
			wdField = f.Name()
		}
	}
	return
}

// partner relation between a wd-table op and a path-table op on the same logical entry.
func (tf *tableFacts) sameEntry(a *An, wdOp, pathOp tableOp) (bool, string) {
	wdF, pathF := tf.watchFields()
	// (a) E.wd / E.path
	if e1, ok := entryOf(wdOp.Key, wdF); ok {
		if e2, ok := entryOf(pathOp.Key, pathF); ok && e1 == e2 {
			return true, "same entry " + tail(e1, 60)
		}
	}
	// (b) wd key is the path table's lookup of the path key:  <...>.path[<pathKey>]
	if strings.HasSuffix(wdOp.Key, "]") {
		depth := 0
		for i := len(wdOp.Key) - 1; i >= 0; i-- {
			if wdOp.Key[i] == ']' {
				depth++
			} else if wdOp.Key[i] == '[' {
				depth--
				if depth == 0 {
					inner := wdOp.Key[i+1 : len(wdOp.Key)-1]
					if inner == pathOp.Key && strings.HasSuffix(wdOp.Key[:i], "."+tf.pathTable.Name()) {
						return true, "wd looked up from the path"
					}
					break
				}
			}
		}
	}
	// (c) ranging over the path table: key #k, value #v
	if strings.HasSuffix(pathOp.Key, "#k") && strings.HasSuffix(wdOp.Key, "#v") &&
		strings.TrimSuffix(pathOp.Key, "#k") == strings.TrimSuffix(wdOp.Key, "#v") && strings.Contains(pathOp.Key, "range(") {
		return true, "range entry of the path table"
	}
	// (d) ranging over the wd table: key #k, entry #v : path key is (#v).path
	if strings.HasSuffix(wdOp.Key, "#k") && strings.Contains(wdOp.Key, "range(") {
		base := strings.TrimSuffix(wdOp.Key, "#k")
		if pathOp.Key == base+"#v."+pathF {
			return true, "range entry of the wd table"
		}
	}
	// updates: path table value is the wd key
	if pathOp.Kind == "update" && wdOp.Kind == "update" {
		if pathOp.Val == wdOp.Key {
			if e1, ok := entryOf(wdOp.Key, wdF); ok && wdOp.Val == e1 {
				// and the path key is that same entry's path field (the tables stay inverse of each other: an entry is
				// listed under the name it carries, not under the name it was asked for)
				if pathOp.Key == e1+"."+pathF || keyIsFieldOf(pathOp, wdOp, pathF) {
					return true, "entry stored under its own wd, its own path -> that wd"
				}
				return false, "the path-table key is not the path field of the entry stored in the wd table"
			}
			if strings.HasSuffix(wdOp.Key, "#k") {
				return true, "path -> ranged wd key"
			}
		}
	}
	return false, ""
}

// keyIsFieldOf: the key of pathOp is a load of field `field` of the very value that wdOp stores (compared after resolving
// parameters of inlined helpers).
func keyIsFieldOf(pathOp, wdOp tableOp, field string) bool {
	if pathOp.KeyV == nil || wdOp.ValV == nil {
		return false
	}
	ld, ok := stripConv(pathOp.KeyV).(*ssa.UnOp)
	if !ok || ld.Op != token.MUL {
		return false
	}
	fa, ok := ld.X.(*ssa.FieldAddr)
	if !ok || fieldName(fa.X.Type(), fa.Field) != field {
		return false
	}
	bv, bc := pathOp.V.Ctx.resolve(fa.X)
	ev, ec := wdOp.V.Ctx.resolve(wdOp.ValV)
	return stripConv(bv) == stripConv(ev) && bc == ec
}

func condEquivalent(a *An, x, y DNF) (bool, string) {
	h1, c1, err := implies(x, y)
	if err != nil {
		a.R.fail("%v", err)
		return false, err.Error()
	}
	if !h1 {
		return false, "first happens without second when " + stripIDs(c1)
	}
	h2, c2, err := implies(y, x)
	if err != nil {
		a.R.fail("%v", err)
		return false, err.Error()
	}
	if !h2 {
		return false, "second happens without first when " + stripIDs(c2)
	}
	return true, ""
}

// pairTables emits one obligation per table mutation of root: it must have a partner on the other table under an equivalent condition.
func pairTables(a *An, tf *tableFacts, root *ssa.Function, rule string) {
	w := a.walk(root)
	ops := collectTableOps(a, tf, w)
	seen := map[string]bool{}
	for i, op := range ops {
		var partner *tableOp
		how := ""
		why := ""
		for j, other := range ops {
			if i == j || other.Table == op.Table || other.Kind != op.Kind {
				continue
			}
			var same bool
			var h string
			if op.Table == tf.wdTable {
				same, h = tf.sameEntry(a, op, other)
			} else {
				same, h = tf.sameEntry(a, other, op)
			}
			if !same {
				continue
			}
			eq, w2 := condEquivalent(a, op.V.Cond, other.V.Cond)
			if eq {
				o := other
				partner, how = &o, h
				break
			}
			why = w2
		}
		ok := partner != nil
		wit := how
		// recognised one-table idioms
		if !ok {
			if idiom, desc := oneTableIdiom(a, tf, op, ops); idiom {
				ok, wit = true, desc
			}
		}
		if !ok {
			wit = "no matching operation on the other table for the same entry under the same condition"
			if why != "" {
				wit += " (" + why + ")"
			}
		}
		other := "path table"
		if op.Table == tf.pathTable {
			other = "wd table"
		}
		key := sprintf("%s:%s(%s[%s])", shortFn(root), op.Kind, op.Table.Name(), tail(stripCallArgs(op.Key), 70))
		if seen[key] {
			key += "#" + shortFn(op.V.Instr.Parent())
		}
		if seen[key] {
			continue
		}
		seen[key] = true
		a.R.ob(rule, key, "a "+op.Kind+" on one bookkeeping table must be matched by the corresponding "+op.Kind+" on the "+other+" for the same entry on every path (the tables stay mutually inverse)",
			a.P.instrPos(op.V.Instr), ok, wit)
	}
}

// oneTableIdiom: operations that legitimately touch one table only.
func oneTableIdiom(a *An, tf *tableFacts, op tableOp, ops []tableOp) (bool, string) {
	_, pathF := tf.watchFields()
	// re-store of the ranged value under the ranged key: no-op
	if op.Kind == "update" && op.Table == tf.wdTable && strings.HasSuffix(op.Key, "#k") && op.Val == strings.TrimSuffix(op.Key, "#k")+"#v" {
		return true, "re-stores the ranged entry under its own key (no-op)"
	}
	// key move on the path table: delete(path, E.path) ... E.path = new ... path[E.path] = K  for the same entry E
	if op.Table == tf.pathTable {
		if e, ok := entryOf(op.Key, pathF); ok {
			for _, other := range ops {
				if other.Table != tf.pathTable || other.Kind == op.Kind {
					continue
				}
				if e2, ok := entryOf(other.Key, pathF); ok && e2 == e {
					if eq, _ := condEquivalent(a, op.V.Cond, other.V.Cond); eq {
						return true, "key move: the entry's old path key is deleted and its new path key inserted under the same condition"
					}
				}
			}
		}
	}
	return false, ""
}

// sortedOps for stable output
func sortOps(ops []tableOp) {
	sort.SliceStable(ops, func(i, j int) bool { return ops[i].V.Seq < ops[j].V.Seq })
}

package main

import (
	"go/token"
	"go/types"
	"strings"

	"golang.org/x/tools/go/ssa"
)

func init() {
	register(&property{
		Meta: propMeta{
			ID:    "C01",
			Title: "No lost events: every change to a watched path is reported",
			Explanation: "Shape rules over the SSA of the inotify reader. Decided (necessary conditions on the delivery path, for every path through the code): " +
				"(1) the decode loop visits every record: the record pointer is &buf[offset], each iteration calls the handler exactly once with it, sends exactly that call's event once, and advances offset by Sizeof(InotifyEvent)+record.Len on every back edge; the loop is left early only when a send function reports 'closed'; its header keeps going while a whole header remains; " +
				"(2) the event send is a blocking select over exactly {done, Events}, skipped only for Op==0, and reports failure only on the done branch; " +
				"(3) the handler returns an empty event only for the enumerated reasons (unknown wd; IN_IGNORED/IN_UNMOUNT; IN_MOVE_SELF of a recursive watch; IN_DELETE_SELF duplicated by the watched parent) and otherwise returns the translator's event unmodified; " +
				"(4) IN_Q_OVERFLOW sends ErrEventOverflow and, when that send succeeds, continues with the same record; " +
				"(5) the native flags requested for the default operation set include every flag the translator maps to one of those operations; " +
				"(6) Remove deletes only the entry of the named path unless the watch is recursive (a watch ended behind the user's back loses every later event). " +
				"Not decided: that the kernel emits the notification; name-length/batching arithmetic beyond the linear form; histories.",
			Rule:        "obligations per loop-shape fact, per loop exit edge, per select state, per empty-event return, per requested flag; non-trivial = the construct exists in the reader",
			Assumptions: []string{"go/types + go/ssa", "types.Sizes of the target for Sizeof(unix.InotifyEvent)", "C15 (flag tables) and C16 (Op.Has) for the meaning of bit tests"},
			MinObl:      14,
		},
		Configs: tiered(concat(linuxQuick, []Config{{"freebsd", "amd64"}}), concat(linuxAll, kqueueQuick)),
		Run:     runC01,
	})
}

func runC01(p *Program, e *Engine, r *Result, tier string) {
	a := newAn(p, e, r, true)
	if a == nil {
		return
	}
	if strings.Contains(strings.Join(r.Files, " "), "backend_kqueue.go") {
		// kqueue backend (cross-compiled): the one clause of this property with a structural form there - a name whose
		// watch was released (Remove, or the reader on Remove/Rename) loses its 'seen' mark with it, so that the Create of
		// a file that later appears under that name is reported (= C18.6). A stale mark is a lost Create.
		kf := kqFind(a)
		if kf == nil {
			return
		}
		computeRemoval(a, kf)
		readsTableEngine = a.E
		seenT := c18SeenTable(a, kf)
		if seenT == nil || len(a.Ro.Readers) == 0 {
			a.R.fail("anchor unresolved: the 'seen' table / the reader of the kqueue backend")
			return
		}
		c18ReleaseClearsSeen(a, kf, seenT, a.Ro.Readers[0], "C01.10")
		return
	}
	df := decodeFacts(a)
	if df == nil {
		return
	}
	c01Loop(a, df, "C01.1")
	c01Send(a, "C01.2")
	c01Drops(a, df, "C01.3")
	c01Overflow(a, df, "C01.4")
	c01Subscription(a, "C01.5")
	// (6) a watch is ended only for the path named in Remove (a silently removed watch loses all later events)
	if tf := findTables(a); tf != nil && a.Ro.API["Remove"] != nil {
		c04RemoveExact(a, tf, a.Ro.API["Remove"], "C01.6")
	}
	// (7) the name of the entry: exactly the record's name bytes, NUL padding removed for every padding length
	// (shared with C08.3)
	if _, hv, hctx := handlerVisits(a, df); hctx != nil {
		n0 := len(a.R.Obligations)
		c08EntryName(a, df, hv, hctx)
		for i := n0; i < len(a.R.Obligations); i++ {
			if a.R.Obligations[i].Rule == "C08.3" {
				a.R.Obligations[i].Rule = "C01.7"
				a.R.Obligations[i].Key = "C01.7|" + strings.TrimPrefix(a.R.Obligations[i].Key, "C08.3|")
			}
		}
	}
	// (8) Add always asks the kernel: a successful Add passed inotify_add_watch (a path that is listed may meanwhile
	// name another file; trusting the table would leave the new file unwatched) - shared with C04.8
	c04AddAsksKernel(a, "C01.8")
	// (9) the reader stops delivering only when the watcher is closed (shared with C13.3)
	n0 := len(a.R.Obligations)
	c13Reader(a)
	for i := n0; i < len(a.R.Obligations); i++ {
		if strings.HasPrefix(a.R.Obligations[i].Rule, "C13.3") {
			a.R.Obligations[i].Key = "C01.9|" + strings.TrimPrefix(a.R.Obligations[i].Key, a.R.Obligations[i].Rule+"|")
			a.R.Obligations[i].Rule = "C01.9"
		}
	}
}

func sizeofRecord(a *An, df *DecodeFacts) int64 {
	return a.P.Sizes.Sizeof(df.RecordType.Underlying())
}

func c01Loop(a *An, df *DecodeFacts, rule string) {
	ro := a.Ro
	rd := df.Reader
	pos := a.P.instrPos(df.HandlerCall)
	a.R.fact("decode loop of %s: header block %d, %d blocks, %d latch(es); handler %s; record size %d", shortFn(rd), df.Loop.Header.Index, len(df.Loop.Blocks), len(df.Loop.Latches), shortFn(df.Handler), sizeofRecord(a, df))
	// record pointer indexed by the offset phi
	a.R.ob(rule, "record=&buf[offset]", "the record pointer is the buffer address at the loop's offset variable", a.P.instrPos(df.RecordIdx), df.OffsetPhi != nil,
		sprintf("index operand: %s", df.RecordIdx.Index.String()))
	// one send of the handler's result
	okSend := len(df.SendCalls) == 1
	wit := sprintf("%d event-send call(s) in the loop", len(df.SendCalls))
	var send *ssa.Call
	if okSend {
		send = df.SendCalls[0]
		arg := ro.eventArg(send)
		ex, isEx := stripConv(arg).(*ssa.Extract)
		if !isEx || ex.Tuple != ssa.Value(df.HandlerCall) || ex.Index != 0 {
			// single-result handler
			if stripConv(arg) != ssa.Value(df.HandlerCall) {
				okSend = false
				wit = "the value sent is not the event returned by this iteration's handler call: " + arg.String()
			}
		}
	}
	a.R.ob(rule, "send(handler(record))", "each iteration sends exactly the event returned by its own handler call, once", pos, okSend, wit)
	if send == nil {
		return
	}
	// dominance and nesting
	dom := true
	var why []string
	if !instrDominates(df.HandlerCall, send) {
		dom = false
		why = append(why, "handler call does not dominate the send")
	}
	for _, l := range df.Loop.Latches {
		if !df.HandlerCall.Block().Dominates(l) {
			dom = false
			why = append(why, sprintf("back edge from block %d is not dominated by the handler call (an iteration can skip the record)", l.Index))
		}
		if !send.Block().Dominates(l) {
			dom = false
			why = append(why, sprintf("back edge from block %d is not dominated by the send (an iteration can skip the delivery)", l.Index))
		}
	}
	if innermostLoop(df.Loops, send.Block()) != df.Loop || innermostLoop(df.Loops, df.HandlerCall.Block()) != df.Loop {
		dom = false
		why = append(why, "handler call or send sits in an inner loop")
	}
	a.R.ob(rule, "every-iteration", "on every path through the loop body the handler call and the send are executed (no continue/skip)", pos, dom, strings.Join(why, "; "))
	// offset advance
	if df.OffsetPhi != nil {
		size := sizeofRecord(a, df)
		adv := true
		var aw []string
		for i, pred := range df.OffsetPhi.Block().Preds {
			edge := df.OffsetPhi.Edges[i]
			if !df.Loop.Blocks[pred] {
				if k, ok := constUint(edge); !ok || k != 0 {
					adv = false
					aw = append(aw, "offset does not start at 0: "+edge.String())
				}
				continue
			}
			lf := lin(edge)
			good := lf.ok && lf.k == size && len(lf.terms) == 2
			if good {
				for t, c := range lf.terms {
					if c != 1 {
						good = false
					}
					if stripConv(t) != ssa.Value(df.OffsetPhi) && !df.recordField(t, "Len") {
						good = false
					}
				}
			}
			if !good {
				adv = false
				aw = append(aw, sprintf("back edge from block %d sets offset to %s (linear form: %d terms, constant %d; expected offset + %d + record.Len)", pred.Index, edge.String(), len(lf.terms), lf.k, size))
			} else {
				aw = append(aw, sprintf("block %d: offset + %d + record.Len", pred.Index, size))
			}
		}
		a.R.ob(rule, "advance", "every back edge advances offset by Sizeof(InotifyEvent) + record.Len", a.P.instrPos(df.RecordIdx), adv, strings.Join(aw, "; "))
		// header condition: continue while a whole header remains
		hdrOK, hw := c01Header(a, df, size)
		a.R.ob(rule, "header", "the loop continues while at least one whole record header remains in the bytes read", a.P.instrPos(df.RecordIdx), hdrOK, hw)
	}
	// exits
	for _, ex := range df.Loop.exits() {
		if ex.From == df.Loop.Header {
			continue
		}
		c := df.loopCtx(a.E.rootCtx(rd))
		lits := c.edgeLits(ex.From, ex.SuccIdx)
		ok := false
		desc := "unconditional exit"
		if len(lits) == 1 {
			l := lits[0]
			desc = stripIDs(l.String())
			if l.A.Kind == AkPred && l.Neg && l.A.Callee != nil && (ro.isSendEvent(l.A.Callee) || ro.isSendError(l.A.Callee)) {
				ok = true
			}
			if t, closed := ro.closedLit(l); t && closed {
				ok = true
			}
		}
		kind := "return"
		if len(ex.To.Instrs) > 0 {
			if _, isRet := ex.To.Instrs[len(ex.To.Instrs)-1].(*ssa.Return); !isRet {
				kind = "break"
			}
		}
		last := ex.From.Instrs[len(ex.From.Instrs)-1]
		key := "exit(" + kind + " when " + stripCallArgs(desc)
		if len(lits) == 1 && lits[0].A.Call != nil && len(lits[0].A.Call.Call.Args) > 0 {
			args := lits[0].A.Call.Call.Args
			key += " of " + strings.Join(origins(c, args[len(args)-1], 0), "|")
		}
		key += ")"
		a.R.ob(rule, key, "the decode loop may be left before the buffer is exhausted only because the watcher was closed (a send function returned false)", a.P.instrPos(last), ok,
			"exit edge controlled by "+desc)
	}
}

// stripCallArgs shortens "!pred(call:(*shared).sendError(...)@..)" to "!pred((*shared).sendError)".
func stripCallArgs(s string) string {
	if i := strings.Index(s, "call:"); i >= 0 {
		rest := s[i+5:]
		// callee name runs to the first "(" that follows a non-"(" run; method names start with "(*T)."
		depth := 0
		for j := 0; j < len(rest); j++ {
			switch rest[j] {
			case '(':
				if depth == 0 && j > 0 && rest[j-1] != '.' && j != 0 {
					return s[:i] + rest[:j] + ")"
				}
				depth++
			case ')':
				depth--
			}
		}
	}
	return s
}

func c01Header(a *An, df *DecodeFacts, size int64) (bool, string) {
	h := df.Loop.Header
	iff, ok := h.Instrs[len(h.Instrs)-1].(*ssa.If)
	if !ok {
		return false, "loop header does not end in a condition"
	}
	b, ok := iff.Cond.(*ssa.BinOp)
	if !ok {
		return false, "loop condition is not a comparison: " + iff.Cond.String()
	}
	// normalise to  lhs (<=|<) rhs  with the loop continuing on true
	lhs, rhs, op := b.X, b.Y, b.Op
	if !df.Loop.Blocks[h.Succs[0]] {
		return false, "loop continues on the false branch (unrecognised form)"
	}
	switch op {
	case token.GEQ:
		lhs, rhs, op = rhs, lhs, token.LEQ
	case token.GTR:
		lhs, rhs, op = rhs, lhs, token.LSS
	}
	if op != token.LEQ && op != token.LSS {
		return false, "unrecognised loop comparison " + b.String()
	}
	d := lin(rhs)
	l := lin(lhs)
	if !d.ok || !l.ok {
		return false, "non-linear loop bound " + b.String()
	}
	for t, c := range l.terms {
		d.terms[t] -= c
	}
	d.k -= l.k
	// expect  n - offset - size (<=)  or  n - offset - size + 1 (<)
	want := -size
	if op == token.LSS {
		want = -size + 1
	}
	nOK, offOK := false, false
	cnt := 0
	for t, c := range d.terms {
		if c == 0 {
			continue
		}
		cnt++
		if c == -1 && stripConv(t) == ssa.Value(df.OffsetPhi) {
			offOK = true
		}
		if c == 1 {
			if ex, ok := df.inReader(a.E, t).(*ssa.Extract); ok && ex.Index == 0 {
				if call, ok := ex.Tuple.(*ssa.Call); ok {
					if cal := call.Call.StaticCallee(); cal != nil && kernelWait(cal) {
						nOK = true
					}
				}
			}
		}
	}
	ok = nOK && offOK && cnt == 2 && d.k == want
	return ok, sprintf("condition %s normalised to 0 %s n - offset %+d (expected %+d with n = bytes read)", b.String(), op, d.k, want)
}

// c01Send: the event send function never drops.
func c01Send(a *An, rule string) {
	sendFnRule(a, rule, a.Ro.SendEvent, "Events", "event", "an event bypasses the send only when its Op is 0", func(l Lit) bool {
		return l.A.Kind == AkCmp && l.Neg && l.A.Op == "==" && l.A.K == "c:0" && isOpSubj(l.A)
	})
}

// c10Send: the error send function never drops a non-nil error.
func c10Send(a *An, rule string) {
	sendFnRule(a, rule, a.Ro.SendError, "Errors", "error", "an error bypasses the send only when it is nil", func(l Lit) bool {
		return l.A.Kind == AkNil && l.Neg && strings.HasPrefix(stripIDs(l.A.Subj), "p:")
	})
}

// sendFnRule: a send function blocks until its value is delivered or the watcher is closed, and reports failure only then.
func sendFnRule(a *An, rule string, fns []*ssa.Function, kind, what, skipDesc string, skipLit func(Lit) bool) {
	ro := a.Ro
	for _, sf := range fns {
		w := a.walk(sf)
		var sel *Visit
		for _, v := range w.Visits {
			if s, ok := v.Instr.(*ssa.Select); ok && v.Ctx.Parent == nil {
				for _, st := range s.States {
					if st.Dir == types.SendOnly && chanKind(ro, st.Chan.Type()) == kind {
						sel = v
					}
				}
			}
		}
		name := shortFn(sf)
		if sel == nil {
			a.R.ob(rule, name+":select", "the "+what+" send is a select", a.P.pos(sf.Pos()), false, "no select sending on "+kind+" at the top level of "+name)
			continue
		}
		s := sel.Instr.(*ssa.Select)
		doneIdx, evIdx := -1, -1
		for i, st := range s.States {
			if st.Dir == types.RecvOnly && sel.Ctx.fieldOfValue(st.Chan) == ro.Done {
				doneIdx = i
			}
			if st.Dir == types.SendOnly && chanKind(ro, st.Chan.Type()) == kind {
				evIdx = i
			}
		}
		ok := s.Blocking && len(s.States) == 2 && doneIdx >= 0 && evIdx >= 0
		a.R.ob(rule, name+":select", "the "+what+" send blocks until delivered or closed: a select without default over exactly {<-done, "+kind+"<-v} (no timeout, no default)", a.P.instrPos(s), ok,
			sprintf("blocking=%v states=%s", s.Blocking, blockShape(sel)))
		// the select is skipped only for the empty value
		guardOK, bad := sel.Cond.everyConj(func(c Conj) bool {
			if len(c) != 1 {
				return false
			}
			for _, l := range c {
				return skipLit(l)
			}
			return false
		})
		w2 := "select reached under " + stripIDs(sel.Cond.String())
		if !guardOK && bad != nil {
			w2 = "a value can bypass the send under " + stripIDs(bad.String())
		}
		a.R.ob(rule, name+":skip-only-empty", skipDesc, a.P.instrPos(s), guardOK, w2)
		// `false` is returned only on the done branch
		okFalse := true
		var fw []string
		nFalse := 0
		for _, v := range w.Visits {
			r, isRet := v.Instr.(*ssa.Return)
			if !isRet || v.Ctx.Parent != nil || len(r.Results) != 1 {
				continue
			}
			// the result through phis / local result variables, with the condition of each source
			for _, e := range valueEdges(v.Ctx, r.Results[0], v.Cond) {
				k, isK := e.V.(*ssa.Const)
				if !isK {
					okFalse = false
					fw = append(fw, "non-constant result at "+a.P.instrPos(r))
					continue
				}
				if k.Value != nil && k.Value.String() == "false" {
					nFalse++
					onDone, _ := e.Cond.everyConj(func(c Conj) bool {
						return c.has(func(l Lit) bool {
							return l.A.Kind == AkCmp && !l.Neg && l.A.Op == "==" && strings.HasPrefix(l.A.Subj, "select@") && l.A.K == sprintf("c:%d", doneIdx)
						})
					})
					if !onDone {
						okFalse = false
						fw = append(fw, "returns false under "+stripIDs(e.Cond.String()))
					}
				}
			}
		}
		a.R.ob(rule, name+":false-means-closed", "the send function reports failure only when the done channel was closed (the reader treats failure as 'stop')", a.P.pos(sf.Pos()), okFalse && nFalse >= 1,
			sprintf("%d `return false` site(s); %s", nFalse, strings.Join(fw, "; ")))
	}
}

// zeroEvent reports whether v is the zero Event.
func zeroEvent(c *Ctx, v ssa.Value) bool {
	rv, rc := c.resolve(v)
	switch x := rv.(type) {
	case *ssa.Const:
		return x.Value == nil
	case *ssa.UnOp:
		if x.Op == token.MUL {
			if al, ok := x.X.(*ssa.Alloc); ok {
				if len(cellStores(al)) == 0 && !fieldStored(al) && !cellEscapes(al) {
					return true
				}
				// a named result that is assigned only later: zero here if only the initial value reaches this load
				if defs, ok := rc.cellDefs(al, x); ok {
					for _, d := range defs {
						if d.Store != nil {
							return false
						}
					}
					return true
				}
			}
		}
	}
	return false
}

// handlerVisits: visits inside the handler as inlined into the reader root.
func handlerVisits(a *An, df *DecodeFacts) (*Walker, []*Visit, *Ctx) {
	w := a.walk(df.Reader)
	var out []*Visit
	var hctx *Ctx
	for _, v := range w.Visits {
		for c := v.Ctx; c != nil; c = c.Parent {
			if c.Fn == df.Handler && c.Parent != nil && c.Parent.Fn == df.LoopFn && c.Parent.Depth == len(df.Chain) && c.Site == ssa.Instruction(df.HandlerCall) {
				out = append(out, v)
				hctx = c
				break
			}
		}
	}
	return w, out, hctx
}

func isBitLit(l Lit, name string, a *An) bool { return bitsWithin(l, a, name) }

// bitsWithin: l is a positive test on a record mask stating that (one of / all of) some bits are set, all of which
// belong to the named constants: bit(k), any(K) with K within the set, or all(K) with K meeting the set.
func bitsWithin(l Lit, a *An, names ...string) bool {
	if l.Neg || !strings.HasSuffix(l.A.Subj, ".Mask") && !strings.HasSuffix(l.A.Subj, "mask") {
		return false
	}
	var allowed uint64
	for _, n := range names {
		if k, ok := unixConst(a, n); ok {
			allowed |= k
		}
	}
	switch l.A.Kind {
	case AkBit, AkAny:
		return l.A.Bits != 0 && l.A.Bits&^allowed == 0
	case AkAll:
		return l.A.Bits&allowed != 0
	}
	return false
}

// unixConst looks a constant up in golang.org/x/sys/unix as loaded for this configuration.
func unixConst(a *An, name string) (uint64, bool) {
	for _, pk := range a.P.Prog.AllPackages() {
		if pk.Pkg.Path() == "golang.org/x/sys/unix" || pk.Pkg.Path() == "golang.org/x/sys/windows" {
			if c, ok := pk.Members[name].(*ssa.NamedConst); ok {
				return constUint(c.Value)
			}
		}
	}
	return 0, false
}

func c01Drops(a *An, df *DecodeFacts, rule string) {
	ro := a.Ro
	_, hv, hctx := handlerVisits(a, df)
	if hctx == nil {
		a.R.fail("handler %s is not inlined at its call site", shortFn(df.Handler))
		return
	}
	tables := ro.Tables
	nRet, nZero := 0, 0
	translator := ""
	for _, v := range hv {
		r, ok := v.Instr.(*ssa.Return)
		if !ok || v.Ctx != hctx || len(r.Results) < 1 {
			continue
		}
		nRet++
		if !zeroEvent(v.Ctx, r.Results[0]) {
			// must be the unmodified result of one call (the translator)
			rv, rc := v.Ctx.resolve(r.Results[0])
			okT := false
			desc := stripIDs(rc.path(rv))
			if call, isCall := rv.(*ssa.Call); isCall {
				if cal := rc.calleeOf(&call.Call); cal != nil && a.P.inMain(cal) {
					okT = true
					translator = shortFn(cal)
					desc = "result of " + translator
				}
			} else if u, isLoad := rv.(*ssa.UnOp); isLoad && u.Op == token.MUL {
				// load of a cell holding the translator's result: resolve() already looked through single-store cells; a remaining
				// load means the event variable is modified after translation.
				if al, isAl := u.X.(*ssa.Alloc); isAl {
					// the translator's own local (e) returned by value from the inlined translator
					if al.Parent() != df.Handler {
						okT = true
						translator = shortFn(al.Parent())
						desc = "event built by " + translator
					}
				}
			}
			a.R.ob(rule, "non-empty-return", "the handler's non-empty result is the translator's event, unmodified", a.P.instrPos(r), okT, desc)
			continue
		}
		nZero++
		// every conjunct must carry an allowed reason
		var reasons []string
		ok2, bad := v.Cond.everyConj(func(c Conj) bool {
			reason := ""
			for _, l := range c {
				switch {
				case l.A.Kind == AkNil && !l.Neg && lookupInTable(l.A, tables):
					reason = "unknown-wd"
				case bitsWithin(l, a, "IN_IGNORED", "IN_UNMOUNT"):
					reason = "IN_IGNORED|IN_UNMOUNT"
				}
			}
			if reason == "" && c.has(func(l Lit) bool {
				return l.A.Kind == AkPred && l.Neg && l.A.Callee != nil && (ro.isSendError(l.A.Callee) || ro.isSendEvent(l.A.Callee))
			}) {
				reason = "closed"
			}
			if reason == "" {
				hasMoveSelf := c.has(func(l Lit) bool { return isBitLit(l, "IN_MOVE_SELF", a) })
				hasRecurse := c.has(func(l Lit) bool { return l.A.Kind == AkBool && !l.Neg && strings.HasSuffix(l.A.Subj, ".recurse") })
				hasDelSelf := c.has(func(l Lit) bool { return isBitLit(l, "IN_DELETE_SELF", a) })
				hasParent := c.has(func(l Lit) bool {
					return l.A.Kind == AkOk && !l.Neg && strings.Contains(l.A.Subj, "filepath.Dir(") && lookupInTable(l.A, tables)
				})
				switch {
				case hasMoveSelf && hasRecurse:
					reason = "IN_MOVE_SELF(recursive)"
				case hasDelSelf && hasParent:
					reason = "IN_DELETE_SELF+parent-watched"
				}
			}
			if reason != "" {
				reasons = append(reasons, reason)
				return true
			}
			return false
		})
		rs := uniq(reasons)
		key := "drop(" + strings.Join(rs, "|") + ")"
		wit := "reaching condition " + stripIDs(v.Cond.String())
		if !ok2 {
			key = "drop(unlisted:" + condSignature(bad) + ")"
			wit = "an empty event is returned under " + stripIDs(bad.String()) + ", which is none of the permitted reasons"
		}
		a.R.ob(rule, key, "the handler returns an empty event only for a permitted reason (unknown wd; IN_IGNORED/IN_UNMOUNT; IN_MOVE_SELF of a recursive watch; IN_DELETE_SELF already reported by the watched parent)",
			a.P.instrPos(r), ok2, wit)
	}
	// the "parent is watched too" lookup comes after this watch's own path entry was removed: otherwise a watch on "." or
	// "/" (whose parent directory is itself) finds itself and suppresses its own Remove
	if tf := findTables(a); tf != nil {
		var look, del *Visit
		for _, v := range hv {
			if lk, ok := v.Instr.(*ssa.Lookup); ok && v.Ctx.fieldOfValue(lk.X) == tf.pathTable && strings.Contains(stripIDs(v.Ctx.path(lk.Index)), "filepath.Dir(") && look == nil {
				look = v
			}
		}
		if look != nil {
			for _, v := range hv {
				if args, ok := isBuiltinCall(v.Instr, "delete"); ok && v.Ctx.fieldOfValue(args[0]) == tf.pathTable && v.Seq < look.Seq {
					if h, _, err := implies(look.Cond, v.Cond); err == nil && h {
						del = v
					}
				}
			}
			a.R.ob(rule, "parent-lookup:after-own-removal", "the lookup of the parent directory in the path table happens after this watch's own entry was deleted (a watch on \".\" or \"/\" must not find itself as its parent)", a.P.instrPos(look.Instr), del != nil,
				"a path-table delete that precedes the lookup on every path to it")
		}
	}
	a.R.fact("handler %s: %d return(s), %d empty-event return(s); translator %s", shortFn(df.Handler), nRet, nZero, translator)
	if nRet == 0 {
		a.R.fail("no return of the handler was visited (vacuous)")
	}
}

// condSignature: a context-free signature of a conjunct (atom kinds and constants, no ids).
func condSignature(c Conj) string {
	var parts []string
	for _, l := range c {
		s := l.A.Kind
		switch l.A.Kind {
		case AkBit, AkAny, AkAll:
			s += sprintf("(%#x)", l.A.Bits)
		case AkPred, AkBool, AkOk, AkNil, AkCmp:
			s += "(" + tail(stripCallArgs(stripIDs(l.A.Subj)), 40) + ")"
		}
		if l.Neg {
			s = "!" + s
		}
		parts = append(parts, s)
	}
	return strings.Join(uniq(parts), "&")
}

func tail(s string, n int) string {
	if len(s) <= n {
		return s
	}
	return s[len(s)-n:]
}

// lookupInTable: atom subject is a lookup in one of the bookkeeping tables.
func lookupInTable(at *Atom, tables []*types.Var) bool {
	v := at.V
	if v == nil {
		return false
	}
	rv, rc := at.Ctx.resolve(v)
	var lk *ssa.Lookup
	switch x := rv.(type) {
	case *ssa.Lookup:
		lk = x
	case *ssa.Extract:
		if l, ok := x.Tuple.(*ssa.Lookup); ok {
			lk = l
		}
	}
	if lk == nil {
		return false
	}
	f := rc.fieldOfValue(lk.X)
	return f != nil && containsVar(tables, f)
}

func c01Overflow(a *An, df *DecodeFacts, rule string) {
	ro := a.Ro
	w := a.walk(df.Reader)
	var ovf *Visit
	for _, call := range df.ErrCalls {
		v := visitOf(w, call)
		if v == nil {
			continue
		}
		org := origins(v.Ctx, ro.errorArg(call), 0)
		for _, o := range org {
			if o == ro.ErrOverflow.Name() || o == "wraps:"+ro.ErrOverflow.Name() {
				ovf = v
			}
		}
	}
	if ovf == nil {
		a.R.ob(rule, "overflow-report", "IN_Q_OVERFLOW is announced on Errors as ErrEventOverflow inside the decode loop", a.P.instrPos(df.HandlerCall), false,
			"no error-send call in the decode loop whose argument originates from ErrEventOverflow")
		return
	}
	// local condition relative to the loop: must be exactly bit(Q_OVERFLOW) on the record's mask (plus loop-entry conditions)
	okCond, _ := ovf.Cond.everyConj(func(c Conj) bool { return c.has(func(l Lit) bool { return isBitLit(l, "IN_Q_OVERFLOW", a) }) })
	// T: header condition ∧ bit(OVF) must imply the call's condition (no extra guard)
	hv := visitOf(w, df.Loop.Header.Instrs[len(df.Loop.Header.Instrs)-1])
	body := visitOf(w, df.BodyAnchor)
	extra := true
	wit := "reaching condition " + stripIDs(ovf.Cond.String())
	if hv != nil && body != nil {
		var ovfLit *Lit
		for _, c := range ovf.Cond {
			for _, l := range c {
				if isBitLit(l, "IN_Q_OVERFLOW", a) {
					ll := l
					ovfLit = &ll
				}
			}
		}
		if ovfLit != nil {
			T := body.Cond.andLit(*ovfLit)
			h, counter, err := implies(T, ovf.Cond)
			if err != nil {
				a.R.fail("%s: %v", rule, err)
			}
			extra = h
			if !h {
				wit += "; not reported when " + stripIDs(counter)
			}
		}
	}
	a.R.ob(rule, "overflow-report", "every record with IN_Q_OVERFLOW leads to a send of ErrEventOverflow (no additional guard)", a.P.instrPos(ovf.Instr), okCond && extra, wit)
	// continuation: success of that send rejoins the body (handler call reached)
	hcv := visitOf(w, df.HandlerCall)
	cont := false
	cw := ""
	if hcv != nil && body != nil {
		var ovfLit, sentLit *Lit
		for _, c := range ovf.Cond {
			for _, l := range c {
				if isBitLit(l, "IN_Q_OVERFLOW", a) {
					ll := l
					ovfLit = &ll
				}
			}
		}
		at, neg := ovf.Ctx.atom(ovf.Instr.(*ssa.Call))
		sl := Lit{A: at, Neg: neg}
		sentLit = &sl
		if ovfLit != nil {
			T := body.Cond.andLit(*ovfLit).andLit(*sentLit)
			h, counter, err := implies(T, hcv.Cond)
			if err != nil {
				a.R.fail("%s: %v", rule, err)
			}
			cont = h
			cw = sprintf("body ∧ overflow ∧ sent => handler-call condition %s", stripIDs(hcv.Cond.String()))
			if !h {
				cw += "; counterexample " + stripIDs(counter)
			}
		}
	}
	a.R.ob(rule, "overflow-continues", "after a delivered overflow report the reader goes on with the same record (it neither stops nor skips)", a.P.instrPos(ovf.Instr), cont, cw)
}

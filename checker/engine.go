package main

// Contexts, canonical access paths and atom recognition.

import (
	"fmt"
	"go/constant"
	"go/token"
	"go/types"
	"os"
	"sort"
	"strings"

	"golang.org/x/tools/go/ssa"
)

type Engine struct {
	P        *Program
	pure     map[*ssa.Function]int // 0 unknown, 1 pure, 2 impure, 3 in progress
	ctxCount int
	// Fold: production-configuration folding (E-F). Maps a global to its constant value.
	Fold      map[*ssa.Global]*ssa.Const
	FoldFacts []string
	InlinePkg *ssa.Package // additional package whose functions are inlined (ztest for C20)
	// NoExpand: functions whose boolean / nil-able results stay opaque predicates in reaching conditions (the role
	// functions: send, isClosed, close - their answer depends on the run, and the rules speak about them by name).
	NoExpand    map[*ssa.Function]bool
	simple      map[*ssa.Function]bool
	fieldStores map[*types.Var][]*ssa.Store
}

func newEngine(p *Program) *Engine {
	return &Engine{P: p, pure: map[*ssa.Function]int{}, Fold: map[*ssa.Global]*ssa.Const{}}
}

// Bound is a value in some (caller) context.
type Bound struct {
	Val ssa.Value
	Ctx *Ctx
}

type Ctx struct {
	E      *Engine
	Fn     *ssa.Function
	Parent *Ctx
	Site   ssa.Instruction // call/defer/go site in Parent
	Bind   map[ssa.Value]Bound
	Depth  int
	id     int
	memo   map[ssa.Value]string
	busy   map[ssa.Value]bool
	// Callback: invoked by an external function with unknown arguments
	Callback bool

	blockCond map[*ssa.BasicBlock]DNF
	condErr   error
	condBusy  bool
	kids      map[ssa.Instruction]map[*ssa.Function]*Ctx
}

func (e *Engine) rootCtx(fn *ssa.Function) *Ctx {
	e.ctxCount++
	return &Ctx{E: e, Fn: fn, id: e.ctxCount, memo: map[ssa.Value]string{}, busy: map[ssa.Value]bool{}, Bind: map[ssa.Value]Bound{}}
}

func (c *Ctx) child(fn *ssa.Function, site ssa.Instruction) *Ctx {
	if c.kids == nil {
		c.kids = map[ssa.Instruction]map[*ssa.Function]*Ctx{}
	}
	if c.kids[site] == nil {
		c.kids[site] = map[*ssa.Function]*Ctx{}
	}
	if k := c.kids[site][fn]; k != nil {
		return k
	}
	c.E.ctxCount++
	k := &Ctx{E: c.E, Fn: fn, Parent: c, Site: site, Depth: c.Depth + 1, id: c.E.ctxCount,
		memo: map[ssa.Value]string{}, busy: map[ssa.Value]bool{}, Bind: map[ssa.Value]Bound{}}
	c.kids[site][fn] = k
	return k
}

// calleeCtx returns the (cached) context for the module-local callee of a call site, with
// parameters and free variables bound; nil if the callee is not inlinable here.
func (c *Ctx) calleeCtx(site ssa.Instruction, cc *ssa.CallCommon) *Ctx {
	if cc.IsInvoke() {
		return nil
	}
	cal := c.calleeOf(cc)
	if cal == nil || cal.Blocks == nil || fnPkg(cal) != c.E.P.Main && fnPkg(cal) != c.E.InlinePkg {
		return nil
	}
	if c.inChain(cal) || c.Depth >= 14 {
		return nil
	}
	k := c.child(cal, site)
	if len(k.Bind) == 0 {
		if mc, mctx := c.closureOf(cc.Value); mc != nil && boundMethod(mc.Fn.(*ssa.Function)) == cal && len(mc.Bindings) == 1 && len(cal.Params) >= 1 {
			// a method value: the receiver is what the closure captured, the call's arguments follow
			k.Bind[cal.Params[0]] = Bound{mc.Bindings[0], mctx}
			for i, p := range cal.Params[1:] {
				if i < len(cc.Args) {
					k.Bind[p] = Bound{cc.Args[i], c}
				}
			}
			return k
		}
		for i, p := range cal.Params {
			if i < len(cc.Args) {
				k.Bind[p] = Bound{cc.Args[i], c}
			}
		}
		if mc, mctx := c.closureOf(cc.Value); mc != nil && mc.Fn == ssa.Value(cal) {
			for i, fv := range cal.FreeVars {
				if i < len(mc.Bindings) {
					k.Bind[fv] = Bound{mc.Bindings[i], mctx}
				}
			}
		}
	}
	return k
}

// callResult: when the callee has exactly one live return, the idx-th result as a value of the callee context.
func (c *Ctx) callResult(call *ssa.Call, idx int) (ssa.Value, *Ctx) {
	k := c.calleeCtx(call, &call.Call)
	if k == nil || c.E.NoExpand[k.Fn] {
		return nil, nil
	}
	conds, err := k.conds()
	if err != nil {
		return nil, nil
	}
	var ret *ssa.Return
	// For a pointer-typed result the identity of the object is what callers use (they dereference it), so returns that
	// yield the nil constant for it do not count: "the one non-nil source" (a lookup helper returning (nil, "") when
	// there is no entry, (entry, name) otherwise).
	_, ptrResult := call.Call.Signature().Results().At(idx).Type().Underlying().(*types.Pointer)
	for _, b := range k.Fn.Blocks {
		if len(b.Instrs) == 0 {
			continue
		}
		r, ok := b.Instrs[len(b.Instrs)-1].(*ssa.Return)
		if !ok {
			continue
		}
		if d, ok := conds[b]; !ok || d.isFalse() {
			continue
		}
		if ptrResult && idx < len(r.Results) && isNilConst(r.Results[idx]) {
			continue
		}
		if ret != nil {
			return nil, nil
		}
		ret = r
	}
	if ret == nil || idx >= len(ret.Results) {
		return nil, nil
	}
	// functions with deferred calls may modify named results: not handled
	for _, b := range k.Fn.Blocks {
		for _, in := range b.Instrs {
			if _, ok := in.(*ssa.Defer); ok {
				return nil, nil
			}
		}
	}
	return ret.Results[idx], k
}

func (c *Ctx) inChain(fn *ssa.Function) bool {
	for x := c; x != nil; x = x.Parent {
		if x.Fn == fn {
			return true
		}
	}
	return false
}

func (c *Ctx) chain() string {
	var names []string
	for x := c; x != nil; x = x.Parent {
		names = append(names, shortFn(x.Fn))
	}
	for i, j := 0, len(names)-1; i < j; i, j = i+1, j-1 {
		names[i], names[j] = names[j], names[i]
	}
	return strings.Join(names, " -> ")
}

func (c *Ctx) root() *Ctx {
	x := c
	for x.Parent != nil {
		x = x.Parent
	}
	return x
}

// mainTypes is the fsnotify package of the loaded program (one program per process).
var mainTypes *types.Package

func shortFn(f *ssa.Function) string {
	if f == nil {
		return "?"
	}
	return f.RelString(mainTypes)
}

// ---------------------------------------------------------------------------
// Resolution of values through bindings and single-store cells.

// resolve follows parameter/free-variable bindings, loads of single-store cells and
// value-preserving conversions, returning the underlying value and its context.
func (c *Ctx) resolve(v ssa.Value) (ssa.Value, *Ctx) {
	for i := 0; i < 64; i++ {
		switch x := v.(type) {
		case *ssa.Parameter, *ssa.FreeVar:
			if b, ok := c.Bind[x]; ok && b.Val != nil {
				v, c = b.Val, b.Ctx
				continue
			}
			return v, c
		case *ssa.Field:
			// a field of a struct value that is the copy of a local struct cell (a value receiver, `res.check()`):
			// what was stored into that field of the cell, if that is a single store
			bv, bc := c.resolve(x.X)
			if ld, ok := bv.(*ssa.UnOp); ok && ld.Op == token.MUL {
				if al, ok := ld.X.(*ssa.Alloc); ok && !cellEscapes(al) && len(cellStores(al)) == 0 {
					if st := localFieldStore(al, x.Field); st != nil && instrDominates(st, ld) {
						v, c = st.Val, bc
						continue
					}
				}
			}
			return v, c
		case *ssa.ChangeType:
			v = x.X
			continue
		case *ssa.MakeInterface:
			v = x.X
			continue
		case *ssa.ChangeInterface:
			v = x.X
			continue
		case *ssa.Extract:
			if call, ok := x.Tuple.(*ssa.Call); ok {
				if rv, rc := c.callResult(call, x.Index); rv != nil {
					v, c = rv, rc
					continue
				}
			}
			return v, c
		case *ssa.Call:
			if x.Call.Signature().Results().Len() == 1 {
				if rv, rc := c.callResult(x, 0); rv != nil {
					v, c = rv, rc
					continue
				}
			}
			return v, c
		case *ssa.UnOp:
			if x.Op == token.MUL {
				if g, ok := x.X.(*ssa.Global); ok {
					if k, ok := c.E.Fold[g]; ok {
						return k, c
					}
				}
				// load: of a cell with a reaching single store?
				addr, actx := c.resolve(x.X)
				if al, ok := addr.(*ssa.Alloc); ok {
					if sv, sctx := actx.reachingStore(al, x, c); sv != nil {
						v, c = sv, sctx
						continue
					}
				}
				// load of a field of a local struct (a request object built once and handed to a helper or a method
				// value): when that field has exactly one store site in the whole package, and that store initialises
				// this very object, the load yields the value stored there
				if fa, ok := x.X.(*ssa.FieldAddr); ok {
					base, bctx := c.resolve(fa.X)
					if al, ok := base.(*ssa.Alloc); ok {
						if st := c.E.singleFieldStoreFor(fa, al); st != nil {
							if sfa, ok := st.Addr.(*ssa.FieldAddr); ok && sfa.X == ssa.Value(al) && st.Parent() == al.Parent() {
								v, c = st.Val, bctx
								continue
							}
							// the cell is a copy of a whole struct value (a value receiver spilled into a local): the field of
							// that value
							if st.Addr == ssa.Value(al) && st.Parent() == al.Parent() {
								sv, sc := bctx.resolve(st.Val)
								if ld2, ok := sv.(*ssa.UnOp); ok && ld2.Op == token.MUL {
									if al2, ok := ld2.X.(*ssa.Alloc); ok && !cellEscapes(al2) && len(cellStores(al2)) == 0 {
										if st2 := localFieldStore(al2, fa.Field); st2 != nil && instrDominates(st2, ld2) {
											v, c = st2.Val, sc
											continue
										}
									}
								}
							}
						}
					}
				}
			}
			return v, c
		}
		return v, c
	}
	return v, c
}

// singleFieldStoreFor: like singleFieldStore, but stores that certainly write another object (their address is rooted
// at a different local cell: a callee's copy of the struct, another local) do not count against object al.
func (e *Engine) singleFieldStoreFor(fa *ssa.FieldAddr, al *ssa.Alloc) *ssa.Store {
	e.singleFieldStore(fa) // fills the table
	f := fieldOf(fa)
	var found *ssa.Store
	for _, st := range e.fieldStores[f] {
		root := st.Addr
		for i := 0; i < 6; i++ {
			switch x := root.(type) {
			case *ssa.FieldAddr:
				root = x.X
				continue
			case *ssa.IndexAddr:
				root = x.X
				continue
			}
			break
		}
		if other, ok := root.(*ssa.Alloc); ok && other != al {
			continue
		}
		if found != nil {
			return nil
		}
		found = st
	}
	return found
}

// localFieldStore: the single store to field idx of the local struct cell al (nil if none or several).
func localFieldStore(al *ssa.Alloc, idx int) *ssa.Store {
	var found *ssa.Store
	refs := al.Referrers()
	if refs == nil {
		return nil
	}
	for _, r := range *refs {
		fa, ok := r.(*ssa.FieldAddr)
		if !ok || fa.Field != idx {
			continue
		}
		if fr := fa.Referrers(); fr != nil {
			for _, u := range *fr {
				if st, ok := u.(*ssa.Store); ok && st.Addr == ssa.Value(fa) {
					if found != nil {
						return nil
					}
					found = st
				}
			}
		}
	}
	return found
}

// singleFieldStore: the one store instruction in the module that writes the struct field addressed by fa, if there is
// exactly one (then every object's field holds either its zero value or what that site stored).
func (e *Engine) singleFieldStore(fa *ssa.FieldAddr) *ssa.Store {
	f := fieldOf(fa)
	if f == nil {
		return nil
	}
	if e.fieldStores == nil {
		e.fieldStores = map[*types.Var][]*ssa.Store{}
		for _, fn := range e.P.srcFuncs(e.P.Main) {
			for _, b := range fn.Blocks {
				for _, in := range b.Instrs {
					if st, ok := in.(*ssa.Store); ok {
						if sfa, ok := st.Addr.(*ssa.FieldAddr); ok {
							if sf := fieldOf(sfa); sf != nil {
								e.fieldStores[sf] = append(e.fieldStores[sf], st)
							}
						}
						// a whole-struct assignment writes every field of that struct
						if stt, ok := st.Val.Type().Underlying().(*types.Struct); ok {
							for i := 0; i < stt.NumFields(); i++ {
								e.fieldStores[stt.Field(i)] = append(e.fieldStores[stt.Field(i)], st)
							}
						}
					}
				}
			}
		}
	}
	if l := e.fieldStores[f]; len(l) == 1 {
		return l[0]
	}
	return nil
}

// cellStores returns all stores to alloc cell al (in its function and in closures capturing it).
func cellStores(al *ssa.Alloc) []*ssa.Store {
	var out []*ssa.Store
	var visit func(addr ssa.Value)
	seen := map[ssa.Value]bool{}
	visit = func(addr ssa.Value) {
		if seen[addr] {
			return
		}
		seen[addr] = true
		refs := addr.Referrers()
		if refs == nil {
			return
		}
		for _, r := range *refs {
			switch r := r.(type) {
			case *ssa.Store:
				if r.Addr == addr {
					out = append(out, r)
				}
			case *ssa.MakeClosure:
				fn := r.Fn.(*ssa.Function)
				for i, b := range r.Bindings {
					if b == addr && i < len(fn.FreeVars) {
						visit(fn.FreeVars[i])
					}
				}
			}
		}
	}
	visit(al)
	return out
}

// escapes reports whether the cell's address is used other than by load/store/closure capture/field access.
func cellEscapes(al *ssa.Alloc) bool {
	refs := al.Referrers()
	if refs == nil {
		return false
	}
	for _, r := range *refs {
		switch r := r.(type) {
		case *ssa.Store:
			if r.Val == al {
				return true
			}
		case *ssa.UnOp, *ssa.MakeClosure, *ssa.DebugRef, *ssa.FieldAddr, *ssa.IndexAddr:
		default:
			_ = r
			return true
		}
	}
	return false
}

// fieldStored reports whether any field/element of the cell is stored to individually.
func fieldStored(al *ssa.Alloc) bool {
	refs := al.Referrers()
	if refs == nil {
		return false
	}
	for _, r := range *refs {
		switch fa := r.(type) {
		case *ssa.FieldAddr:
			if rr := fa.Referrers(); rr != nil {
				for _, u := range *rr {
					if st, ok := u.(*ssa.Store); ok && st.Addr == ssa.Value(fa) {
						return true
					}
				}
			}
		case *ssa.IndexAddr:
			if rr := fa.Referrers(); rr != nil {
				for _, u := range *rr {
					if st, ok := u.(*ssa.Store); ok && st.Addr == ssa.Value(fa) {
						return true
					}
				}
			}
		}
	}
	return false
}

// reachingStore: the value stored in cell al that reaches load ld (which lives in ldCtx). c is the context of al.
func (c *Ctx) reachingStore(al *ssa.Alloc, ld *ssa.UnOp, ldCtx *Ctx) (ssa.Value, *Ctx) {
	if cellEscapes(al) {
		return nil, nil
	}
	// a struct or array cell some of whose fields / elements are assigned individually is not "the value stored into
	// it": `ev := translate(); ev.Name = f(ev.Name); return ev` does not return the translator's event
	if fieldStored(al) {
		return nil, nil
	}
	stores := cellStores(al)
	if len(stores) == 0 {
		return nil, nil
	}
	// stores inside closures: only handled when there is exactly one store overall
	if len(stores) == 1 {
		st := stores[0]
		if st.Parent() != al.Parent() {
			// assigned once, inside a local closure that was run (inlined) before this load:
			// `var err error; w.locked(func() { err = w.remove(p) }); return err`
			if ld.Parent() == al.Parent() && ldCtx == c {
				if k := findKidCtx(c, st.Parent()); k != nil {
					if site := siteIn(k, c); site != nil && instrDominates(site, ld) {
						return st.Val, k
					}
				}
			}
			return nil, nil
		}
		// a single assignment: its value - unless this load can run before it (a named result read by an early bare
		// return): then the general rules below decide
		if ld.Parent() != al.Parent() || instrDominates(st, ld) {
			return st.Val, c
		}
	}
	for _, st := range stores {
		if st.Parent() != al.Parent() {
			return nil, nil
		}
	}
	// all stores in al's function. Find the point of interest in that function: the load itself,
	// or (for a load in a closure) the MakeClosure capturing the cell.
	var at ssa.Instruction = ld
	if ld.Parent() != al.Parent() {
		at = nil
		for x := ldCtx; x != nil; x = x.Parent {
			if x.Parent != nil && x.Parent.Fn == al.Parent() {
				// x.Site is the call in al's function (or the closure was made there)
				at = x.Site
			}
		}
		if at == nil {
			return nil, nil
		}
	}
	// a store earlier in the same block wins (defer-spilled results: `*r = v; rundefers; return *r`)
	if at.Block() != nil {
		idx := instrIndex(at)
		for i := idx - 1; i >= 0; i-- {
			if st, ok := at.Block().Instrs[i].(*ssa.Store); ok && st.Addr == ssa.Value(al) {
				return st.Val, c
			}
		}
	}
	// choose the latest store that dominates `at`; a store that `at` dominates and that cannot flow back
	// to `at` through a loop is a later assignment and is ignored.
	var best *ssa.Store
	var loops []*Loop
	undecided := false
	_ = undecided
	for _, st := range stores {
		if !instrDominates(st, at) {
			if instrDominates(at, st) {
				if loops == nil {
					loops = naturalLoops(al.Parent())
				}
				inLoop := false
				for _, l := range loops {
					if l.Blocks[at.Block()] && l.Blocks[st.Block()] {
						inLoop = true
					}
				}
				if !inLoop {
					continue
				}
			}
			best = nil
			undecided = true
			break
		}
		if best == nil || instrDominates(best, st) {
			best = st
		}
	}
	if best == nil {
		// path-sensitive reaching definitions: decided when exactly one definition reaches
		if ld.Parent() == al.Parent() && !c.condBusy {
			if defs, ok := c.cellDefs(al, ld); ok && len(defs) == 1 {
				if defs[0].Store == nil {
					return zeroConst(deref(al.Type())), c
				}
				return defs[0].Store.Val, c
			}
		}
		return nil, nil
	}
	return best.Val, c
}

// siteIn: the instruction of ancestor context anc through which descendant k was entered.
func siteIn(k, anc *Ctx) ssa.Instruction {
	for x := k; x != nil && x.Parent != nil; x = x.Parent {
		if x.Parent == anc {
			return x.Site
		}
	}
	return nil
}

// zeroConst: the zero value of t as a constant.
func zeroConst(t types.Type) *ssa.Const { return ssa.NewConst(nil, t) }

// cellDef is one definition of a local variable cell that can reach a load: a store, or the zero value the cell starts
// with, together with the function-local condition under which it is (still) the reaching definition.
type cellDef struct {
	Store *ssa.Store // nil: the initial zero value
	Cond  DNF
}

// cellDefs: the definitions of the non-escaping cell al that reach instruction at (in al's function), path-sensitively:
// a definition is propagated forwards along edges with their conditions and is killed by the next store to the cell.
// Not decided (ok=false) when a store shares a loop with `at`, when a store sits in a closure, or when the function's
// conditions are unavailable.
func (c *Ctx) cellDefs(al *ssa.Alloc, at ssa.Instruction) (defs []cellDef, ok bool) {
	fn := al.Parent()
	if os.Getenv("VERIF_DEBUG") == "2" {
		fmt.Fprintf(os.Stderr, "cellDefs %s at %v: parent=%v cfn=%v esc=%v fs=%v\n", al.Name(), at, at.Parent() == fn, c.Fn == fn, cellEscapes(al), fieldStored(al))
	}
	if at.Parent() != fn || c.Fn != fn || cellEscapes(al) || fieldStored(al) {
		return nil, false
	}
	stores := cellStores(al)
	for _, st := range stores {
		if st.Parent() != fn {
			return nil, false
		}
	}
	loops := naturalLoops(fn)
	for _, st := range stores {
		for _, l := range loops {
			if l.Blocks[at.Block()] && l.Blocks[st.Block()] {
				return nil, false
			}
		}
	}
	conds, err := c.conds()
	if err != nil {
		return nil, false
	}
	defer func() {
		if r := recover(); r != nil {
			if _, isOv := r.(dnfOverflow); isOv {
				defs, ok = nil, false
				return
			}
			panic(r)
		}
	}()
	storeIdx := map[*ssa.BasicBlock][]int{}
	for _, st := range stores {
		storeIdx[st.Block()] = append(storeIdx[st.Block()], instrIndex(st))
	}
	atIdx := instrIndex(at)
	storeBetween := func(b *ssa.BasicBlock, lo, hi int) bool { // a store with lo < index < hi
		for _, i := range storeIdx[b] {
			if i > lo && i < hi {
				return true
			}
		}
		return false
	}
	type def struct {
		st  *ssa.Store
		b   *ssa.BasicBlock
		idx int
	}
	all := []def{{nil, al.Block(), instrIndex(al)}}
	if al.Block() == nil { // parameters spilled etc.: no zero definition
		all = nil
	}
	for _, st := range stores {
		all = append(all, def{st, st.Block(), instrIndex(st)})
	}
	order := rpo(fn)
	for _, d := range all {
		if d.b == at.Block() && d.idx < atIdx && !storeBetween(d.b, d.idx, atIdx) {
			// same block, nothing in between: this is the definition, whatever else exists
			return []cellDef{{d.st, conds[d.b]}}, true
		}
		if storeBetween(d.b, d.idx, 1<<30) {
			continue // overwritten before the block ends
		}
		alive := map[*ssa.BasicBlock]DNF{d.b: conds[d.b]}
		for _, b := range order {
			if b == d.b {
				continue
			}
			in := dnfFalse()
			for _, p := range b.Preds {
				if isBackEdge(p, b) {
					continue
				}
				pa, have := alive[p]
				if !have {
					continue
				}
				for si, sb := range p.Succs {
					if sb == b {
						in = in.or(c.edgeCond(conds, p, si, pa))
					}
				}
			}
			if in.isFalse() {
				continue
			}
			if b == at.Block() && !storeBetween(b, -1, atIdx) {
				defs = append(defs, cellDef{d.st, in})
			}
			if len(storeIdx[b]) == 0 {
				alive[b] = in
			}
		}
	}
	return defs, len(defs) > 0
}

func instrIndex(in ssa.Instruction) int {
	for i, x := range in.Block().Instrs {
		if x == in {
			return i
		}
	}
	return -1
}

func instrDominates(a, b ssa.Instruction) bool {
	if a.Block() == b.Block() {
		return instrIndex(a) < instrIndex(b)
	}
	return a.Block().Dominates(b.Block())
}

// ---------------------------------------------------------------------------
// Canonical paths.

func (c *Ctx) path(v ssa.Value) string {
	if s, ok := c.memo[v]; ok {
		return s
	}
	if c.busy[v] {
		return fmt.Sprintf("cyc:%s", v.Name())
	}
	c.busy[v] = true
	s := c.path0(v)
	delete(c.busy, v)
	c.memo[v] = s
	return s
}

func constStr(k *ssa.Const) string {
	if k.Value == nil {
		if _, ok := k.Type().Underlying().(*types.Basic); ok {
			return "c:zero"
		}
		return "nil"
	}
	if k.Value.Kind() == constant.String {
		return "c:" + k.Value.ExactString()
	}
	return "c:" + k.Value.ExactString()
}

func fieldName(t types.Type, i int) string {
	t = deref(t)
	if st, ok := t.Underlying().(*types.Struct); ok && i < st.NumFields() {
		return st.Field(i).Name()
	}
	return fmt.Sprintf("f%d", i)
}

func deref(t types.Type) types.Type {
	if p, ok := t.Underlying().(*types.Pointer); ok {
		return p.Elem()
	}
	return t
}

func (c *Ctx) path0(v ssa.Value) string {
	switch x := v.(type) {
	case *ssa.Parameter:
		if b, ok := c.Bind[x]; ok {
			if b.Val != nil {
				return b.Ctx.path(b.Val)
			}
		}
		if c.Parent == nil && x.Parent().Signature.Recv() != nil && len(x.Parent().Params) > 0 && x.Parent().Params[0] == x {
			return "recv"
		}
		if c.Parent == nil {
			return "p:" + x.Name()
		}
		return fmt.Sprintf("p:%s.%s", shortFn(c.Fn), x.Name())
	case *ssa.FreeVar:
		if b, ok := c.Bind[x]; ok && b.Val != nil {
			return b.Ctx.path(b.Val)
		}
		return "fv:" + x.Name()
	case *ssa.Const:
		return constStr(x)
	case *ssa.Global:
		if k, ok := c.E.Fold[x]; ok {
			_ = k
		}
		return "g:" + x.Pkg.Pkg.Name() + "." + x.Name()
	case *ssa.Function:
		return "fn:" + shortFn(x)
	case *ssa.Builtin:
		return "builtin:" + x.Name()
	case *ssa.Alloc:
		// address of a cell; name it by its variable
		if x.Comment != "" {
			return fmt.Sprintf("&%s.%s", shortFn(x.Parent()), x.Comment)
		}
		return fmt.Sprintf("&%s.%s", shortFn(x.Parent()), x.Name())
	case *ssa.FieldAddr:
		if base, bctx := c.resolve(x.X); base != nil {
			if al, ok := base.(*ssa.Alloc); ok && !cellEscapes(al) {
				if sts := cellStores(al); len(sts) == 1 && sts[0].Parent() == al.Parent() && !fieldStored(al) {
					return bctx.path(sts[0].Val) + "." + fieldName(x.X.Type(), x.Field)
				}
			}
		}
		return c.path(x.X) + "." + fieldName(x.X.Type(), x.Field)
	case *ssa.Field:
		return c.path(x.X) + "." + fieldName(x.X.Type(), x.Field)
	case *ssa.IndexAddr:
		return c.path(x.X) + "[" + c.path(x.Index) + "]"
	case *ssa.Index:
		return c.path(x.X) + "[" + c.path(x.Index) + "]"
	case *ssa.UnOp:
		switch x.Op {
		case token.MUL:
			// load
			rv, rc := c.resolve(x)
			if rv != ssa.Value(x) {
				return rc.path(rv)
			}
			if g, ok := x.X.(*ssa.Global); ok {
				if k, ok := c.E.Fold[g]; ok {
					return constStr(k)
				}
			}
			p := c.path(x.X)
			return strings.TrimPrefix(p, "&")
		case token.ARROW:
			return "recv<-" + c.path(x.X)
		case token.NOT:
			return "!" + c.path(x.X)
		default:
			return x.Op.String() + c.path(x.X)
		}
	case *ssa.BinOp:
		a, b := c.path(x.X), c.path(x.Y)
		switch x.Op {
		case token.ADD, token.MUL, token.AND, token.OR, token.XOR, token.EQL, token.NEQ:
			if x.Op != token.ADD || !isString(x.X.Type()) {
				if b < a {
					a, b = b, a
				}
			}
		}
		return "(" + a + x.Op.String() + b + ")"
	case *ssa.Lookup:
		return c.path(x.X) + "[" + c.path(x.Index) + "]"
	case *ssa.Extract:
		if rv, rc := c.resolve(x); rv != ssa.Value(x) {
			return rc.path(rv)
		}
		switch t := x.Tuple.(type) {
		case *ssa.Lookup:
			if x.Index == 0 {
				return c.path(t)
			}
			return c.path(t) + "#ok"
		case *ssa.TypeAssert:
			if x.Index == 0 {
				return c.path(t)
			}
			return c.path(t) + "#ok"
		case *ssa.Next:
			if x.Index == 0 {
				return c.path(t) + "#ok"
			}
			if x.Index == 1 {
				return c.path(t) + "#k"
			}
			return c.path(t) + "#v"
		case *ssa.UnOp:
			if x.Index == 0 {
				return c.path(t)
			}
			return c.path(t) + "#ok"
		}
		return fmt.Sprintf("%s#%d", c.path(x.Tuple), x.Index)
	case *ssa.Next:
		return "next(" + c.path(x.Iter) + ")"
	case *ssa.Range:
		return "range(" + c.path(x.X) + ")"
	case *ssa.Call:
		if rv, rc := c.resolve(x); rv != ssa.Value(x) {
			return rc.path(rv)
		}
		return c.callPath(x)
	case *ssa.Phi:
		// all edges equal?
		var first string
		same := true
		for i, e := range x.Edges {
			p := c.path(e)
			if i == 0 {
				first = p
			} else if p != first {
				same = false
			}
		}
		if same && len(x.Edges) > 0 && !strings.HasPrefix(first, "cyc:") {
			return first
		}
		nm := x.Comment
		if nm == "" {
			nm = x.Name()
		}
		return fmt.Sprintf("phi:%s.%s", shortFn(x.Parent()), nm)
	case *ssa.ChangeType:
		return c.path(x.X)
	case *ssa.Convert:
		return c.path(x.X)
	case *ssa.MakeInterface:
		return c.path(x.X)
	case *ssa.ChangeInterface:
		return c.path(x.X)
	case *ssa.SliceToArrayPointer:
		return c.path(x.X)
	case *ssa.Slice:
		lo, hi := "", ""
		if x.Low != nil {
			lo = c.path(x.Low)
		}
		if x.High != nil {
			hi = c.path(x.High)
		}
		return c.path(x.X) + "[" + lo + ":" + hi + "]"
	case *ssa.TypeAssert:
		return c.path(x.X) + ".(" + types.TypeString(x.AssertedType, func(p *types.Package) string { return p.Name() }) + ")"
	case *ssa.MakeClosure:
		return "closure:" + shortFn(x.Fn.(*ssa.Function))
	case *ssa.MakeMap, *ssa.MakeChan, *ssa.MakeSlice:
		return fmt.Sprintf("make:%s@%s", shortFn(v.Parent()), v.Name())
	case *ssa.Select:
		return fmt.Sprintf("select@%s.%s", shortFn(x.Parent()), x.Name())
	}
	return fmt.Sprintf("?%T:%s", v, v.Name())
}

func isString(t types.Type) bool {
	b, ok := t.Underlying().(*types.Basic)
	return ok && b.Info()&types.IsString != 0
}

func (c *Ctx) callPath(x *ssa.Call) string {
	var args []string
	for _, a := range x.Call.Args {
		args = append(args, c.path(a))
	}
	name := ""
	pure := false
	if x.Call.IsInvoke() {
		name = "invoke:" + x.Call.Method.Name()
		args = append([]string{c.path(x.Call.Value)}, args...)
	} else if cal := c.calleeOf(&x.Call); cal != nil {
		name = shortFn(cal)
		pure = c.E.isPure(cal)
	} else if b, ok := x.Call.Value.(*ssa.Builtin); ok {
		name = b.Name()
		pure = b.Name() == "len" || b.Name() == "cap" || b.Name() == "min" || b.Name() == "max"
	} else {
		name = "dyn:" + c.path(x.Call.Value)
	}
	s := "call:" + name + "(" + strings.Join(args, ",") + ")"
	if !pure {
		s += fmt.Sprintf("@%d.%s", c.id, x.Name())
	}
	return s
}

// calleeOf resolves the function called, looking through bindings (closures passed as parameters, cells).
func (c *Ctx) calleeOf(cc *ssa.CallCommon) *ssa.Function {
	if cc.IsInvoke() {
		return nil
	}
	if f := cc.StaticCallee(); f != nil {
		return f
	}
	v, _ := c.resolve(cc.Value)
	switch f := v.(type) {
	case *ssa.Function:
		return f
	case *ssa.MakeClosure:
		fn := f.Fn.(*ssa.Function)
		if m := boundMethod(fn); m != nil {
			return m
		}
		return fn
	}
	return nil
}

// boundMethod: for the synthetic wrapper behind a method value (`r.apply`), the method itself.
func boundMethod(fn *ssa.Function) *ssa.Function {
	if fn == nil || !strings.HasPrefix(fn.Synthetic, "bound method wrapper") {
		return nil
	}
	obj, ok := fn.Object().(*types.Func)
	if !ok || fn.Prog == nil {
		return nil
	}
	return fn.Prog.FuncValue(obj)
}

// closureOf returns the MakeClosure (and its context) the call's function value resolves to, if any.
func (c *Ctx) closureOf(v ssa.Value) (*ssa.MakeClosure, *Ctx) {
	rv, rc := c.resolve(v)
	if mc, ok := rv.(*ssa.MakeClosure); ok {
		return mc, rc
	}
	return nil, nil
}

// ---------------------------------------------------------------------------
// Purity (no writes to non-local memory, no channel operations, no impure calls).

var pureExternal = map[string]bool{
	"strings.HasPrefix": true, "strings.HasSuffix": true, "strings.TrimRight": true, "strings.TrimSuffix": true,
	"strings.TrimPrefix": true, "strings.Replace": true, "strings.Contains": true, "strings.TrimSpace": true,
	"strings.IndexByte": true, "strings.Index": true, "strings.Split": true, "strings.ToLower": true,
	"path/filepath.Clean": true, "path/filepath.Dir": true, "path/filepath.Base": true, "path/filepath.Join": true,
	"path/filepath.IsAbs": true, "path/filepath.VolumeName": true, "path/filepath.ToSlash": true,
	"errors.Is": true, "bytes.IndexByte": true,
	"golang.org/x/sys/unix.ByteSliceToString": true,
}

func fullName(f *ssa.Function) string {
	if f == nil {
		return ""
	}
	if f.Pkg != nil && f.Signature.Recv() == nil {
		return f.Pkg.Pkg.Path() + "." + f.Name()
	}
	return f.String()
}

func (e *Engine) isPure(f *ssa.Function) bool {
	switch e.pure[f] {
	case 1:
		return true
	case 2:
		return false
	case 3:
		return true // optimistic on recursion
	}
	if !e.P.inModule(f) || f.Blocks == nil {
		r := pureExternal[fullName(f)]
		if r {
			e.pure[f] = 1
		} else {
			e.pure[f] = 2
		}
		return r
	}
	e.pure[f] = 3
	pure := true
	for _, b := range f.Blocks {
		for _, in := range b.Instrs {
			switch x := in.(type) {
			case *ssa.Store:
				if _, ok := x.Addr.(*ssa.Alloc); !ok {
					// store through pointer: local only if the base is a local alloc
					if !localAddr(x.Addr) {
						pure = false
					}
				}
			case *ssa.MapUpdate, *ssa.Send, *ssa.Select, *ssa.Go, *ssa.Defer, *ssa.Panic:
				pure = false
			case *ssa.UnOp:
				if x.Op == token.ARROW {
					pure = false
				}
			case *ssa.Call:
				if x.Call.IsInvoke() {
					pure = false
				} else if cal := x.Call.StaticCallee(); cal != nil {
					if !e.isPure(cal) {
						pure = false
					}
				} else if bi, ok := x.Call.Value.(*ssa.Builtin); ok {
					switch bi.Name() {
					case "len", "cap", "append", "min", "max", "copy":
					default:
						pure = false
					}
				} else {
					pure = false
				}
			}
		}
	}
	if pure {
		e.pure[f] = 1
	} else {
		e.pure[f] = 2
	}
	return pure
}

func localAddr(v ssa.Value) bool {
	for {
		switch x := v.(type) {
		case *ssa.Alloc:
			return true
		case *ssa.FieldAddr:
			v = x.X
		case *ssa.IndexAddr:
			v = x.X
		default:
			return false
		}
	}
}

// ---------------------------------------------------------------------------
// Atom recognition.

func (c *Ctx) constUint(v ssa.Value) (uint64, bool) {
	if k, ok := constUint(v); ok {
		return k, true
	}
	rv, _ := c.resolve(v)
	if rv != v {
		return constUint(rv)
	}
	return 0, false
}

func constUint(v ssa.Value) (uint64, bool) {
	for {
		switch x := v.(type) {
		case *ssa.Convert:
			v = x.X
			continue
		case *ssa.ChangeType:
			v = x.X
			continue
		}
		break
	}
	k, ok := v.(*ssa.Const)
	if !ok || k.Value == nil {
		return 0, false
	}
	if k.Value.Kind() != constant.Int {
		return 0, false
	}
	if u, ok := constant.Uint64Val(k.Value); ok {
		return u, true
	}
	if i, ok := constant.Int64Val(k.Value); ok {
		return uint64(i), true
	}
	return 0, false
}

func popcount(x uint64) int {
	n := 0
	for ; x != 0; x &= x - 1 {
		n++
	}
	return n
}

func isNilConst(v ssa.Value) bool {
	k, ok := v.(*ssa.Const)
	return ok && k.Value == nil && !isBasic(k.Type())
}

func isBasic(t types.Type) bool {
	_, ok := t.Underlying().(*types.Basic)
	return ok
}

// lit decomposes a boolean SSA value into a literal.
func (c *Ctx) lit(v ssa.Value) Lit {
	neg := false
	for {
		if u, ok := v.(*ssa.UnOp); ok && u.Op == token.NOT {
			neg = !neg
			v = u.X
			continue
		}
		break
	}
	a, n2 := c.atom(v)
	if n2 {
		neg = !neg
	}
	return Lit{A: a, Neg: neg}
}

// maskTest recognises  (subj & K)  and returns subj, K.
func (c *Ctx) maskTest(v ssa.Value) (ssa.Value, uint64, bool) {
	for {
		switch x := v.(type) {
		case *ssa.Convert:
			v = x.X
			continue
		case *ssa.ChangeType:
			v = x.X
			continue
		}
		break
	}
	b, ok := v.(*ssa.BinOp)
	if !ok || b.Op != token.AND {
		return nil, 0, false
	}
	if k, ok := c.constUint(b.Y); ok {
		return b.X, k, true
	}
	if k, ok := c.constUint(b.X); ok {
		return b.Y, k, true
	}
	return nil, 0, false
}

func (c *Ctx) bitAtom(subj ssa.Value, k uint64, all bool, v ssa.Value) *Atom {
	a := &Atom{Subj: c.path(subj), Bits: k, V: v, Ctx: c, SubjType: subj.Type().String()}
	switch {
	case popcount(k) == 1:
		a.Kind = AkBit
	case all:
		a.Kind = AkAll
	default:
		a.Kind = AkAny
	}
	return a
}

// atom returns the atom for boolean value v and whether it is negated.
func (c *Ctx) atom(v ssa.Value) (*Atom, bool) {
	// look through bindings (bool parameters bound to caller values)
	if rv, rc := c.resolve(v); rv != v || rc != c {
		if rc != c || rv != v {
			if _, isParam := rv.(*ssa.Parameter); !isParam {
				if _, isFV := rv.(*ssa.FreeVar); !isFV {
					l := rc.lit(rv)
					return l.A, l.Neg
				}
			}
		}
	}
	switch x := v.(type) {
	case *ssa.BinOp:
		switch x.Op {
		case token.EQL, token.NEQ:
			neg := x.Op == token.NEQ
			// mask tests
			for _, pair := range [][2]ssa.Value{{x.X, x.Y}, {x.Y, x.X}} {
				if subj, k, ok := c.maskTest(pair[0]); ok {
					if kc, ok := c.constUint(pair[1]); ok {
						if kc == k && k != 0 {
							return c.bitAtom(subj, k, true, v), neg
						}
						if kc == 0 && k != 0 {
							// (m&K)==0  ≡ ¬any
							return c.bitAtom(subj, k, false, v), !neg
						}
					}
				}
			}
			// nil tests
			if isNilConst(x.Y) {
				return &Atom{Kind: AkNil, Subj: c.path(x.X), V: x.X, Ctx: c}, neg
			}
			if isNilConst(x.X) {
				return &Atom{Kind: AkNil, Subj: c.path(x.Y), V: x.Y, Ctx: c}, neg
			}
			// comparisons with constants / general equality
			a, b := x.X, x.Y
			if _, ok := a.(*ssa.Const); ok {
				a, b = b, a
			}
			sa, sb := c.path(a), c.path(b)
			if _, bConst := b.(*ssa.Const); !bConst {
				sa, sb = eqOrder(sa, sb) // a == b and b == a are one atom
			}
			return &Atom{Kind: AkCmp, Subj: sa, Op: "==", K: sb, V: v, Ctx: c}, neg
		case token.GTR:
			// (m&K) > 0
			if subj, k, ok := c.maskTest(x.X); ok {
				if kc, ok := c.constUint(x.Y); ok && kc == 0 && k != 0 {
					return c.bitAtom(subj, k, false, v), false
				}
			}
			// a > b  ≡ ¬(a <= b)
			return &Atom{Kind: AkCmp, Subj: c.path(x.X), Op: "<=", K: c.path(x.Y), V: v, Ctx: c}, true
		case token.LSS:
			return &Atom{Kind: AkCmp, Subj: c.path(x.X), Op: "<", K: c.path(x.Y), V: v, Ctx: c}, false
		case token.LEQ:
			return &Atom{Kind: AkCmp, Subj: c.path(x.X), Op: "<=", K: c.path(x.Y), V: v, Ctx: c}, false
		case token.GEQ:
			return &Atom{Kind: AkCmp, Subj: c.path(x.X), Op: "<", K: c.path(x.Y), V: v, Ctx: c}, true
		}
	case *ssa.Call:
		if cal := c.calleeOf(&x.Call); cal != nil {
			// Op.Has / Event.Has
			if subj, karg, ok := c.hasCall(x, cal); ok {
				if k, ok := c.constUint(karg); ok && k != 0 {
					at := c.bitAtomS(subj, k, v)
					at.SubjType = karg.Type().String() // Has(op Op): the subject is an Op as well
					return at, false
				}
			}
			if fullName(cal) == "errors.Is" && len(x.Call.Args) == 2 {
				return &Atom{Kind: AkErrIs, Subj: c.path(x.Call.Args[0]), K: c.path(x.Call.Args[1]), V: v, Ctx: c, Call: x, Callee: cal}, false
			}
			return &Atom{Kind: AkPred, Subj: c.path(x), V: v, Ctx: c, Call: x, Callee: cal}, false
		}
		return &Atom{Kind: AkPred, Subj: c.path(x), V: v, Ctx: c, Call: x}, false
	case *ssa.Extract:
		if x.Index >= 1 {
			switch t := x.Tuple.(type) {
			case *ssa.Lookup:
				return &Atom{Kind: AkOk, Subj: c.path(t), V: t, Ctx: c}, false
			case *ssa.TypeAssert:
				return &Atom{Kind: AkOk, Subj: c.path(t), V: t, Ctx: c}, false
			case *ssa.UnOp:
				return &Atom{Kind: AkOk, Subj: c.path(t), V: t, Ctx: c}, false
			}
		}
		if nx, ok := x.Tuple.(*ssa.Next); ok && x.Index == 0 {
			return &Atom{Kind: AkOpaque, Subj: c.path(nx) + "#ok@" + fmt.Sprint(c.id), V: v, Ctx: c}, false
		}
		if call, ok := x.Tuple.(*ssa.Call); ok {
			return &Atom{Kind: AkPred, Subj: c.path(x), V: v, Ctx: c, Call: call, Callee: c.calleeOf(&call.Call)}, false
		}
	case *ssa.UnOp:
		if x.Op == token.MUL {
			return &Atom{Kind: AkBool, Subj: c.path(x), V: v, Ctx: c}, false
		}
	case *ssa.Const:
		if x.Value != nil && x.Value.Kind() == constant.Bool {
			return &Atom{Kind: "const", Subj: x.Value.String(), V: v, Ctx: c}, false
		}
	case *ssa.Parameter, *ssa.FreeVar, *ssa.Field:
		return &Atom{Kind: AkBool, Subj: c.path(v), V: v, Ctx: c}, false
	}
	return &Atom{Kind: AkOpaque, Subj: c.path(v), V: v, Ctx: c}, false
}

// eqOrder puts the two sides of an equality between non-constants into a canonical order.
func eqOrder(a, b string) (string, string) {
	if stripIDs(b) < stripIDs(a) {
		return b, a
	}
	return a, b
}

// bitAtomS builds a bit atom whose subject is given as a path string.
func (c *Ctx) bitAtomS(subj string, k uint64, v ssa.Value) *Atom {
	a := &Atom{Subj: subj, Bits: k, V: v, Ctx: c}
	if popcount(k) == 1 {
		a.Kind = AkBit
	} else {
		a.Kind = AkAny
	}
	return a
}

// hasCall recognises calls of a method with the semantics "receiver-set ∩ argument ≠ ∅":
// a method named Has on an unsigned integer named type, or on a struct delegating to it.
// Its semantics are verified by C16 (Op.Has is o&h != 0; Event.Has delegates).
func (c *Ctx) hasCall(x *ssa.Call, cal *ssa.Function) (subj string, karg ssa.Value, ok bool) {
	if cal.Name() != "Has" || cal.Signature.Recv() == nil || len(x.Call.Args) != 2 || !c.E.P.inMain(cal) {
		return "", nil, false
	}
	rt := cal.Signature.Recv().Type()
	if b, isB := rt.Underlying().(*types.Basic); isB && b.Info()&types.IsUnsigned != 0 {
		return c.path(x.Call.Args[0]), x.Call.Args[1], true
	}
	if st, isS := deref(rt).Underlying().(*types.Struct); isS {
		// Event.Has: subject is recv.Op
		for i := 0; i < st.NumFields(); i++ {
			if b, isB := st.Field(i).Type().Underlying().(*types.Basic); isB && b.Info()&types.IsUnsigned != 0 {
				if _, named := st.Field(i).Type().(*types.Named); named {
					return c.path(x.Call.Args[0]) + "." + st.Field(i).Name(), x.Call.Args[1], true
				}
			}
		}
	}
	return "", nil, false
}

// ---------------------------------------------------------------------------
// Block conditions (back-edge-free).

func rpo(fn *ssa.Function) []*ssa.BasicBlock {
	seen := map[*ssa.BasicBlock]bool{}
	var post []*ssa.BasicBlock
	var dfs func(b *ssa.BasicBlock)
	dfs = func(b *ssa.BasicBlock) {
		seen[b] = true
		for _, s := range b.Succs {
			if !seen[s] {
				dfs(s)
			}
		}
		post = append(post, b)
	}
	if len(fn.Blocks) > 0 {
		dfs(fn.Blocks[0])
	}
	for i, j := 0, len(post)-1; i < j; i, j = i+1, j-1 {
		post[i], post[j] = post[j], post[i]
	}
	return post
}

// isBackEdge: edge p→s where s dominates p (natural loop back edge).
func isBackEdge(p, s *ssa.BasicBlock) bool { return s.Dominates(p) }

// edgeLit returns the literal controlling edge p→s (nil atom if unconditional).
func (c *Ctx) edgeLits(p *ssa.BasicBlock, succIdx int) []Lit {
	if len(p.Instrs) == 0 {
		return nil
	}
	iff, ok := p.Instrs[len(p.Instrs)-1].(*ssa.If)
	if !ok {
		return nil
	}
	l := c.lit(iff.Cond)
	if succIdx == 1 {
		l.Neg = !l.Neg
	}
	// fold constants
	if l.A.Kind == "const" {
		return []Lit{l}
	}
	return []Lit{l}
}

// constLit reports the truth of a literal that is statically known (const atom or folded global compare).
func (c *Ctx) constLit(l Lit) (val bool, known bool) {
	if l.A.Kind == "const" {
		return (l.A.Subj == "true") != l.Neg, true
	}
	if l.A.Kind == AkBool || l.A.Kind == AkOpaque {
		if l.A.Subj == "c:true" {
			return !l.Neg, true
		}
		if l.A.Subj == "c:false" {
			return l.Neg, true
		}
	}
	return false, false
}

var errCondBusy = fmt.Errorf("reaching conditions requested re-entrantly")

func (c *Ctx) conds() (map[*ssa.BasicBlock]DNF, error) {
	if c.blockCond != nil || c.condErr != nil {
		return c.blockCond, c.condErr
	}
	if c.condBusy {
		// asked while being computed (a helper's result expansion looked back at a value of this function): the
		// caller treats the value as opaque; nothing is cached
		return nil, errCondBusy
	}
	c.condBusy = true
	defer func() { c.condBusy = false }()
	defer func() {
		if r := recover(); r != nil {
			if _, ok := r.(dnfOverflow); ok {
				c.condErr = fmt.Errorf("reaching conditions of %s exceed %d conjuncts (undecided)", shortFn(c.Fn), maxConj)
				c.blockCond = nil
				return
			}
			panic(r)
		}
	}()
	m := map[*ssa.BasicBlock]DNF{}
	order := rpo(c.Fn)
	// Loops all of whose exits lead to one block: that block is reached exactly when the loop is entered (termination
	// assumed), so the exit tests are not part of its condition.
	singleExit := map[*ssa.BasicBlock]*Loop{} // exit target -> loop
	for _, l := range naturalLoops(c.Fn) {
		exits := l.exits()
		if len(exits) == 0 {
			continue
		}
		same := true
		for _, e := range exits {
			if e.To != exits[0].To {
				same = false
			}
		}
		if same {
			if old, dup := singleExit[exits[0].To]; !dup || len(l.Blocks) > len(old.Blocks) {
				singleExit[exits[0].To] = l
			}
		}
	}
	for i, b := range order {
		if i == 0 {
			m[b] = dnfTrue()
			continue
		}
		var d DNF
		loopDone := false
		for _, p := range b.Preds {
			if isBackEdge(p, b) {
				continue
			}
			if l := singleExit[b]; l != nil && l.Blocks[p] {
				if !loopDone {
					loopDone = true
					// condition of entering the loop: the header's non-loop predecessors
					for _, hp := range l.Header.Preds {
						if l.Blocks[hp] {
							continue
						}
						hpc, ok := m[hp]
						if !ok {
							continue
						}
						for si, s := range hp.Succs {
							if s == l.Header {
								d = d.or(c.edgeCond(m, hp, si, hpc))
							}
						}
					}
				}
				continue
			}
			pc, ok := m[p]
			if !ok {
				continue // unreachable pred
			}
			// which successor index?
			ec := dnfFalse()
			for si, s := range p.Succs {
				if s != b {
					continue
				}
				ec = ec.or(c.edgeCond(m, p, si, pc))
			}
			d = d.or(ec)
		}
		m[b] = d
	}
	c.blockCond = m
	return m, nil
}

// edgeCond: condition of taking edge p -> p.Succs[si], given cond(p) = pc. A branch on a boolean phi is
// expanded through the phi's incoming edges (phi == OR_i edge_i ∧ value_i), so that flags such as
// `alreadyWatching` re-assigned on one path keep their meaning.
func (c *Ctx) edgeCond(m map[*ssa.BasicBlock]DNF, p *ssa.BasicBlock, si int, pc DNF) DNF {
	if len(p.Instrs) == 0 {
		return pc
	}
	iff, ok := p.Instrs[len(p.Instrs)-1].(*ssa.If)
	if !ok {
		return pc
	}
	v := iff.Cond
	neg := si == 1
	for {
		if u, ok := v.(*ssa.UnOp); ok && u.Op == token.NOT {
			neg = !neg
			v = u.X
			continue
		}
		break
	}
	if ph, ok := v.(*ssa.Phi); ok && isBoolType(ph.Type()) && (ph.Block() == p || ph.Block().Dominates(p)) {
		if d, okAll := c.phiDNF(m, ph, neg, 0); okAll {
			if ph.Block() == p {
				return d
			}
			return pc.and(d)
		}
	}
	if d, ok := c.callResultDNF(v, neg); ok {
		return pc.and(d)
	}
	e := pc
	for _, l := range c.edgeLits(p, si) {
		if val, known := c.constLit(l); known {
			if !val {
				e = dnfFalse()
			}
			continue
		}
		e = e.andLit(l)
	}
	return e
}

// simpleCallee: a package-local function without loops, channel operations or goroutines of its own, whose results are
// therefore a function of the conditions on its return paths.
func (e *Engine) simpleCallee(fn *ssa.Function) bool {
	if e.simple == nil {
		e.simple = map[*ssa.Function]bool{}
	}
	if v, ok := e.simple[fn]; ok {
		return v
	}
	ok := fn.Blocks != nil
	if ok && len(naturalLoops(fn)) > 0 {
		// a helper with a loop (retry on EINTR, a scan) is still a function of its return conditions as long as no
		// role function (send, isClosed, close) is reached from it: those must stay visible by name to the rules
		e.simple[fn] = false // recursion guard
		for _, v := range e.Walk(fn, WalkOpts{NoCond: true}).Visits {
			if cal := visitCallee(v); cal != nil && e.NoExpand[cal] {
				ok = false
				break
			}
		}
	}
	for _, b := range fn.Blocks {
		for _, in := range b.Instrs {
			switch x := in.(type) {
			case *ssa.Select, *ssa.Send, *ssa.Go:
				ok = false
			case *ssa.UnOp:
				if x.Op == token.ARROW {
					ok = false
				}
			case *ssa.Defer:
				if _, isClosure := x.Call.Value.(*ssa.MakeClosure); isClosure {
					ok = false // a deferred closure may rewrite named results
				}
			}
		}
	}
	e.simple[fn] = ok
	return ok
}

// callResultDNF: a branch on a boolean result, or on a nil test of a result, of a simple package-local helper is
// expressed through the helper's own return conditions (result == OR_i return_i ∧ value_i), so that splitting a
// function into helpers returning (value, ok) keeps the meaning of the caller's tests. v is the (NOT-stripped) branch
// value, neg asks for its negation.
func (c *Ctx) callResultDNF(v ssa.Value, neg bool) (d DNF, ok bool) {
	defer func() {
		if r := recover(); r != nil {
			if _, isOv := r.(dnfOverflow); isOv {
				d, ok = nil, false
				return
			}
			panic(r)
		}
	}()
	var subject ssa.Value
	nilTest := false
	switch x := v.(type) {
	case *ssa.BinOp:
		if x.Op != token.EQL && x.Op != token.NEQ {
			return nil, false
		}
		switch {
		case isNilConst(x.Y):
			subject = x.X
		case isNilConst(x.X):
			subject = x.Y
		default:
			return nil, false
		}
		nilTest = true
		if x.Op == token.NEQ {
			neg = !neg
		}
	default:
		if !isBoolType(v.Type()) {
			return nil, false
		}
		subject = v
	}
	return c.resultDNF(subject, nilTest, neg)
}

// resultDNF: "subject is nil" (nilTest) or "subject is true", negated if neg, through the return conditions of the
// simple helper whose result subject is; ok=false when subject is not such a result.
func (c *Ctx) resultDNF(subject ssa.Value, nilTest, neg bool) (d DNF, ok bool) {
	defer func() {
		if r := recover(); r != nil {
			if _, isOv := r.(dnfOverflow); isOv {
				d, ok = nil, false
				return
			}
			panic(r)
		}
	}()
	rv, rc := c.resolve(subject)
	var call *ssa.Call
	switch x := rv.(type) {
	case *ssa.Call:
		call = x
	case *ssa.Extract:
		call, _ = x.Tuple.(*ssa.Call)
	}
	if call == nil {
		return nil, false
	}
	cal := rc.calleeOf(&call.Call)
	if cal != nil && !nilTest {
		if d, ok := rc.errIsAnyDNF(call, cal, neg); ok {
			return d, true
		}
	}
	if cal == nil || c.E.NoExpand[cal] || !c.E.simpleCallee(cal) || rc.calleeCtx(call, &call.Call) == nil {
		return nil, false
	}
	edges := valueEdges(rc, rv, dnfTrue())
	if os.Getenv("VERIF_DEBUG") == "18" {
		fmt.Fprintf(os.Stderr, "resultDNF %s: %d edges\n", shortFn(cal), len(edges))
	}
	if len(edges) == 0 || len(edges) > 16 {
		return nil, false
	}
	for _, e := range edges {
		known, truth := false, false
		ev := e.V
		if nilTest {
			if isNilConst(ev) {
				known, truth = true, true
			}
			switch ev.(type) {
			case *ssa.Alloc, *ssa.MakeInterface, *ssa.MakeClosure, *ssa.MakeMap, *ssa.MakeSlice, *ssa.MakeChan:
				known, truth = true, false
			}
		} else if k, isK := ev.(*ssa.Const); isK && k.Value != nil && k.Value.Kind() == constant.Bool {
			known, truth = true, constant.BoolVal(k.Value)
		}
		if known {
			if truth != neg {
				d = d.or(e.Cond)
			}
			continue
		}
		var l Lit
		if nilTest {
			l = Lit{A: &Atom{Kind: AkNil, Subj: e.Ctx.path(ev), V: ev, Ctx: e.Ctx}, Neg: neg}
		} else {
			l = e.Ctx.lit(ev)
			if neg {
				l.Neg = !l.Neg
			}
			if val, kn := e.Ctx.constLit(l); kn {
				if val {
					d = d.or(e.Cond)
				}
				continue
			}
		}
		d = d.or(e.Cond.andLit(l))
	}
	if d == nil {
		d = dnfFalse()
	}
	return d, true
}

// errIsAnyDNF: a package-local helper `func(err error, targets ...error) bool` that returns true exactly when
// errors.Is(err, t) holds for one of the targets (a loop over the targets with that single test) is the disjunction of
// errors.Is atoms over what the call site puts into the targets slice.
func (c *Ctx) errIsAnyDNF(call *ssa.Call, cal *ssa.Function, neg bool) (DNF, bool) {
	if cal.Blocks == nil || fnPkg(cal) != c.E.P.Main || len(cal.Params) != 2 || cal.Signature.Results().Len() != 1 || !isBoolType(cal.Signature.Results().At(0).Type()) {
		return nil, false
	}
	if !isErrorType(cal.Params[0].Type()) {
		return nil, false
	}
	if _, isSlice := cal.Params[1].Type().Underlying().(*types.Slice); !isSlice {
		return nil, false
	}
	// body shape: one call, errors.Is(param0, element of param1); `return true` only on its true branch; otherwise false
	var isCall *ssa.Call
	for _, b := range cal.Blocks {
		for _, in := range b.Instrs {
			switch x := in.(type) {
			case *ssa.Call:
				if bi, ok := x.Call.Value.(*ssa.Builtin); ok && bi.Name() == "len" {
					continue
				}
				f := x.Call.StaticCallee()
				if f == nil || fullName(f) != "errors.Is" || isCall != nil {
					return nil, false
				}
				isCall = x
			case *ssa.Store, *ssa.MapUpdate, *ssa.Send, *ssa.Go, *ssa.Defer, *ssa.Select:
				return nil, false
			}
		}
	}
	if isCall == nil || isCall.Call.Args[0] != ssa.Value(cal.Params[0]) {
		return nil, false
	}
	el, ok := isCall.Call.Args[1].(*ssa.UnOp)
	if !ok {
		return nil, false
	}
	ia, ok := el.X.(*ssa.IndexAddr)
	if !ok || ia.X != ssa.Value(cal.Params[1]) {
		return nil, false
	}
	for _, b := range cal.Blocks {
		r, ok := b.Instrs[len(b.Instrs)-1].(*ssa.Return)
		if !ok {
			continue
		}
		k, isK := r.Results[0].(*ssa.Const)
		if !isK || k.Value == nil || k.Value.Kind() != constant.Bool {
			return nil, false
		}
		if constant.BoolVal(k.Value) {
			// reached only through the true branch of the errors.Is test
			okTrue := false
			for _, p := range b.Preds {
				if len(p.Instrs) > 0 {
					if iff, ok := p.Instrs[len(p.Instrs)-1].(*ssa.If); ok && iff.Cond == ssa.Value(isCall) && p.Succs[0] == b && len(b.Preds) == 1 {
						okTrue = true
					}
				}
			}
			if !okTrue {
				return nil, false
			}
		}
	}
	k := c.calleeCtx(call, &call.Call)
	if k == nil || len(call.Call.Args) != 2 {
		return nil, false
	}
	tv, tc := c.resolve(call.Call.Args[1])
	ins, complete := sliceInserted(tc, tv)
	if !complete || len(ins) == 0 {
		return nil, false
	}
	errPath := c.path(call.Call.Args[0])
	d := dnfFalse()
	if neg {
		d = dnfTrue()
	}
	for _, in := range ins {
		at := &Atom{Kind: AkErrIs, Subj: errPath, K: in.c.path(in.v), V: isCall, Ctx: k, Call: isCall, Callee: isCall.Call.StaticCallee()}
		if neg {
			d = d.andLit(Lit{A: at, Neg: true})
		} else {
			d = d.or(DNF{Conj{at.ID(): Lit{A: at}}})
		}
	}
	return d, true
}

// phiDNF: absolute condition "control reached ph's block and ph has value !neg".
func (c *Ctx) phiDNF(m map[*ssa.BasicBlock]DNF, ph *ssa.Phi, neg bool, depth int) (DNF, bool) {
	if depth > 4 {
		return nil, false
	}
	var d DNF
	for i, pred := range ph.Block().Preds {
		if isBackEdge(pred, ph.Block()) {
			if ph.Edges[i] == ssa.Value(ph) {
				continue // loop-invariant: the back edge carries the phi itself
			}
			return nil, false
		}
		ppc, have := m[pred]
		if !have {
			return nil, false
		}
		e := dnfFalse()
		for psi, s := range pred.Succs {
			if s == ph.Block() {
				e = e.or(c.edgeCond(m, pred, psi, ppc))
			}
		}
		ev := ph.Edges[i]
		neg2 := false
		if ph2, isPhi := ev.(*ssa.Phi); isPhi && isBoolType(ph2.Type()) && (ph2.Block() == pred || ph2.Block().Dominates(pred)) {
			sub, ok := c.phiDNF(m, ph2, neg, depth+1)
			if !ok {
				return nil, false
			}
			e = e.and(sub)
		} else if sub, ok := c.callResultDNF(stripNot(ev, &neg2), neg2 != neg); ok {
			e = e.and(sub)
		} else {
			l := c.lit(ev)
			if neg {
				l.Neg = !l.Neg
			}
			if val, known := c.constLit(l); known {
				if !val {
					e = dnfFalse()
				}
			} else {
				e = e.andLit(l)
			}
		}
		d = d.or(e)
	}
	return d, true
}

// stripNot removes leading boolean negations, flipping *neg for each.
func stripNot(v ssa.Value, neg *bool) ssa.Value {
	for {
		if u, ok := v.(*ssa.UnOp); ok && u.Op == token.NOT {
			*neg = !*neg
			v = u.X
			continue
		}
		return v
	}
}

// condPhi reports whether block b ends in a branch on a boolean phi.
func condPhi(b *ssa.BasicBlock) (*ssa.Phi, bool) {
	if len(b.Instrs) == 0 {
		return nil, false
	}
	iff, ok := b.Instrs[len(b.Instrs)-1].(*ssa.If)
	if !ok {
		return nil, false
	}
	v := iff.Cond
	for {
		if u, ok := v.(*ssa.UnOp); ok && u.Op == token.NOT {
			v = u.X
			continue
		}
		break
	}
	ph, ok := v.(*ssa.Phi)
	return ph, ok && isBoolType(ph.Type())
}

// sortedKeys helper
func sortedKeys(m map[string]bool) []string {
	ks := make([]string, 0, len(m))
	for k := range m {
		ks = append(ks, k)
	}
	sort.Strings(ks)
	return ks
}

package main

import (
	"go/token"
	"go/types"
	"sort"
	"strings"

	"golang.org/x/tools/go/ssa"
)

func init() {
	register(&property{
		Meta: propMeta{
			ID:    "C07",
			Title: "Thread safety: concurrent API use is race-free and linearizable",
			Explanation: "Guarded-by inference over the SSA of the inotify backend: every access (field read/write through a shared pointer, map lookup/update/delete/range/len, array element access) reachable from any API method or from the reader goroutine is collected with its must-lockset in every calling context. " +
				"Decided: (1) every location that is written after construction (tables, fields of *watch, the cookie ring and its index) has one common mutex held at all of its accesses; (2) every location accessed without a lock is never stored outside constructor code; " +
				"(3) in each API method and in the event handler all table accesses lie in a single critical section (no unlock between the lookup and the dependent update: needed for 'of two concurrent Removes exactly one succeeds'); " +
				"(4) a table lookup whose key comes from the kernel or from the caller is nil/ok-tested before it is dereferenced (a concurrently removed watch), lookups keyed by the companion table's ok-tested result rely on the inverse-tables invariant checked by C04; " +
				"(5) no blocking operation under a lock and an acyclic lock order without re-acquisition (shared with C05). " +
				"Not decided: linearizability of whole histories, the Go memory model beyond lock discipline (no race detector is run).",
			Rule:        "one obligation per shared location (guarded-by or immutable), per root and lock (single critical section), per dereferenced table lookup, per lock acquisition; non-trivial = location accessed from a root",
			Assumptions: []string{"go/types + go/ssa", "objects freshly allocated in a function are local until stored into a table", "production folding (E-F) re-verified each run"},
			MinObl:      25,
		},
		Configs: tiered(linuxQuick, linuxAll),
		Run:     runC07,
	})
}

func runC07(p *Program, e *Engine, r *Result, tier string) {
	a := newAn(p, e, r, true)
	if a == nil {
		return
	}
	if !a.require(len(a.Ro.Locks) >= 1, "bookkeeping mutex") || !a.require(len(a.Ro.Tables) >= 1, "bookkeeping tables") ||
		!a.require(len(a.Ro.Readers) >= 1, "reader goroutine") {
		return
	}
	c07Guarded(a)
	c07Published(a, "C07.2")
	c07Returns(a)
	c07Deref(a, "C07.4")
	c05R1(a, "C07.5")
	c05R4(a, "C07.5")
}

// c07Published: the constructor starts the reader goroutine only after the backend is completely built: no store to a
// field of the backend (or of the structs it holds) follows the go statement on any path of the constructor.
func c07Published(a *An, rule string) {
	ro := a.Ro
	w := a.walk(ro.Ctor)
	var goV *Visit
	for _, v := range w.Visits {
		if _, ok := v.Instr.(*ssa.Go); ok && goV == nil {
			goV = v
		}
	}
	if goV == nil {
		a.R.ob(rule, "ctor:published-complete", "the constructor starts the reader", a.P.pos(ro.Ctor.Pos()), false, "no go statement in the constructor")
		return
	}
	var late []string
	for _, v := range w.Visits {
		if v.Seq <= goV.Seq {
			continue
		}
		st, ok := v.Instr.(*ssa.Store)
		if !ok {
			continue
		}
		if fa, ok := st.Addr.(*ssa.FieldAddr); ok {
			if f := fieldOf(fa); f != nil && ro.StructOf[f] != nil && ro.StructOf[f] != ro.Watcher {
				late = append(late, a.P.instrPos(st)+" "+fieldStr(ro, f))
			}
		}
	}
	a.R.ob(rule, "ctor:published-complete", "every field of the backend is set before the reader goroutine is started (the reader and the first API calls never see a half-built backend)", a.P.instrPos(goV.Instr), len(late) == 0,
		"stores after the go statement: "+fmtList(late))
}

type access struct {
	loc    string // location label
	write  bool
	must   LockSet
	region map[string]int
	root   string
	pos    string
	chain  string
	table  bool
	kernel bool
}

func syncType(t types.Type) bool {
	if n, ok := t.(*types.Named); ok && n.Obj().Pkg() != nil && (n.Obj().Pkg().Path() == "sync" || n.Obj().Pkg().Path() == "sync/atomic") {
		return true
	}
	return false
}

func hasStoreThrough(v ssa.Value) bool {
	refs := v.Referrers()
	if refs == nil {
		return false
	}
	for _, r := range *refs {
		switch x := r.(type) {
		case *ssa.Store:
			if x.Addr == v {
				return true
			}
		case *ssa.IndexAddr:
			if hasStoreThrough(x) {
				return true
			}
		case *ssa.FieldAddr:
			if hasStoreThrough(x) {
				return true
			}
		}
	}
	return false
}

// collectAccesses enumerates shared-state accesses of one root.
func collectAccesses(a *An, root *ssa.Function) []access {
	ro := a.Ro
	w := a.walk(root)
	var out []access
	add := func(v *Visit, loc string, write, table bool) {
		out = append(out, access{loc: loc, write: write, must: v.Must, region: v.Region, root: shortFn(root), pos: a.P.instrPos(v.Instr), chain: v.Ctx.chain(), table: table})
	}
	mapLoc := func(v *Visit, m ssa.Value) string {
		if f := v.Ctx.fieldOfValue(m); f != nil {
			if _, ok := ro.StructOf[f]; ok {
				return fieldStr(ro, f) + "[]"
			}
		}
		return ""
	}
	for _, v := range w.Visits {
		switch x := v.Instr.(type) {
		case *ssa.FieldAddr:
			f := fieldOf(x)
			st, ok := ro.StructOf[f]
			if !ok || st == ro.Watcher {
				continue
			}
			if syncType(f.Type()) {
				continue
			}
			base, _ := v.Ctx.resolve(x.X)
			if _, isAlloc := base.(*ssa.Alloc); isAlloc {
				continue // fresh local object
			}
			if _, isParam := base.(*ssa.Parameter); isParam && v.Ctx.Parent == nil && x.X != ssa.Value(root.Params[0]) {
				// a by-pointer parameter of a root that is not the receiver: caller-owned
				continue
			}
			add(v, fieldStr(ro, f), hasStoreThrough(x), false)
		case *ssa.Lookup:
			if _, ok := x.X.Type().Underlying().(*types.Map); ok {
				if l := mapLoc(v, x.X); l != "" {
					add(v, l, false, true)
				}
			}
		case *ssa.MapUpdate:
			if l := mapLoc(v, x.Map); l != "" {
				add(v, l, true, true)
			}
		case *ssa.Range:
			if _, ok := x.X.Type().Underlying().(*types.Map); ok {
				if l := mapLoc(v, x.X); l != "" {
					add(v, l, false, true)
				}
			}
		case *ssa.Call:
			if cal := v.Ctx.calleeOf(&x.Call); cal != nil && len(x.Call.Args) > 0 {
				if pk := fnPkg(cal); pk != nil && strings.HasPrefix(pk.Pkg.Path(), "golang.org/x/sys/") {
					// a kernel call on the backend's own descriptor field: part of the bookkeeping transaction
					if f := v.Ctx.fieldOfValue(x.Call.Args[0]); f != nil && ro.StructOf[f] == ro.Backend {
						switch cal.Name() {
						case "InotifyAddWatch", "InotifyRmWatch":
							out = append(out, access{loc: "kernel-watch-list(" + fieldStr(ro, f) + ")", write: true, must: v.Must, region: v.Region, root: shortFn(root),
								pos: a.P.instrPos(v.Instr), chain: v.Ctx.chain(), table: true, kernel: true})
						}
					}
				}
			}
			if args, ok := isBuiltinCall(x, "delete"); ok && len(args) == 2 {
				if l := mapLoc(v, args[0]); l != "" {
					add(v, l, true, true)
				}
			}
			if args, ok := isBuiltinCall(x, "len"); ok && len(args) == 1 {
				if _, isMap := args[0].Type().Underlying().(*types.Map); isMap {
					if l := mapLoc(v, args[0]); l != "" {
						add(v, l, false, true)
					}
				}
			}
		}
	}
	return out
}

func c07Guarded(a *An) {
	var all []access
	for _, root := range a.roots() {
		all = append(all, collectAccesses(a, root)...)
	}
	byLoc := map[string][]access{}
	for _, ac := range all {
		byLoc[ac.loc] = append(byLoc[ac.loc], ac)
	}
	var locs []string
	for l := range byLoc {
		locs = append(locs, l)
	}
	sort.Strings(locs)
	guard := map[string]string{}
	for _, l := range locs {
		acs := byLoc[l]
		nW := 0
		var common LockSet
		for i, ac := range acs {
			if ac.write {
				nW++
			}
			if i == 0 {
				common = ac.must.clone()
			} else {
				common = intersect(common, ac.must)
			}
		}
		if nW == 0 {
			a.R.ob("C07.2", "immutable("+l+")", "location read by API/reader goroutines is never written after construction", "-", true,
				sprintf("%d read(s) from roots, 0 writes reachable from any API method or the reader", len(acs)))
			continue
		}
		ok := len(common) > 0
		wit := sprintf("%d access(es) (%d writes), all under %s", len(acs), nW, common)
		if !ok {
			var un []string
			// find the lock most accesses hold, report those without it
			cnt := map[string]int{}
			for _, ac := range acs {
				for k := range ac.must {
					cnt[k]++
				}
			}
			best := ""
			for k, n := range cnt {
				if best == "" || n > cnt[best] || (n == cnt[best] && k < best) {
					best = k
				}
			}
			for _, ac := range acs {
				if best == "" || !ac.must[best] {
					kind := "read"
					if ac.write {
						kind = "write"
					}
					un = append(un, sprintf("%s at %s via %s holds %s", kind, ac.pos, ac.chain, ac.must))
				}
			}
			wit = sprintf("%d access(es) (%d writes); majority lock %q is not held at: %s", len(acs), nW, best, strings.Join(uniq(un), "; "))
		} else {
			guard[l] = common.list()[0]
		}
		a.R.ob("C07.1", "guarded("+l+")", "location written after construction must have one mutex held at every access", "-", ok, wit)
	}
	// (3) single critical section per root for table accesses
	byRoot := map[string][]access{}
	for _, ac := range all {
		if ac.table {
			byRoot[ac.root] = append(byRoot[ac.root], ac)
		}
	}
	var roots []string
	for r := range byRoot {
		roots = append(roots, r)
	}
	sort.Strings(roots)
	for _, r := range roots {
		acs := byRoot[r]
		locks := map[string]bool{}
		for _, ac := range acs {
			if g, ok := guard[ac.loc]; ok {
				locks[g] = true
			}
		}
		for _, lk := range sortedKeys(locks) {
			regions := map[int][]string{}
			for _, ac := range acs {
				if guard[ac.loc] != lk {
					continue
				}
				id, held := ac.region[lk]
				if !held {
					id = -2
				}
				regions[id] = append(regions[id], ac.pos)
			}
			ok := len(regions) == 1
			for id := range regions {
				if id < 0 {
					ok = false
				}
			}
			var desc []string
			for id, ps := range regions {
				desc = append(desc, sprintf("section#%d: %s", id, fmtList(uniq(ps))))
			}
			sort.Strings(desc)
			a.R.ob("C07.3", "one-section("+r+","+lk+")", "all table accesses of one API call / one handler activation lie in a single critical section (check-then-act atomicity)", "-", ok,
				strings.Join(desc, "; "))
		}
	}
}

// c07Returns: reference-typed results of API methods are freshly allocated, never an alias of shared state.
func c07Returns(a *An) {
	for _, m := range a.Ro.apiRoots() {
		res := m.Signature.Results()
		for i := 0; i < res.Len(); i++ {
			switch res.At(i).Type().Underlying().(type) {
			case *types.Slice, *types.Map, *types.Pointer:
			default:
				continue
			}
			w := a.walk(m)
			var all []string
			for _, v := range w.Visits {
				r, ok := v.Instr.(*ssa.Return)
				if !ok || v.Ctx.Parent != nil || i >= len(r.Results) {
					continue
				}
				all = append(all, origins(v.Ctx, r.Results[i], 0)...)
			}
			all = uniq(all)
			var bad []string
			for _, o := range all {
				if o == "nil" || o == "make" || o == "alloc" || strings.HasPrefix(o, "const:") {
					continue
				}
				bad = append(bad, o)
			}
			a.R.ob("C07.6", "fresh-result("+m.Name()+")", "a slice/map/pointer returned by an API method must be allocated by that call (a shared backing array is raced on by concurrent callers)",
				a.P.pos(m.Pos()), len(bad) == 0, sprintf("origins of the result: %s; not call-local: %s", fmtList(all), fmtList(bad)))
		}
	}
}

// c07Deref: dereferences of pointer-valued table lookups.
func c07Deref(a *An, rule string) {
	ro := a.Ro
	seen := map[string]bool{}
	for _, root := range a.roots() {
		w := a.walk(root)
		for _, v := range w.Visits {
			fa, ok := v.Instr.(*ssa.FieldAddr)
			if !ok {
				continue
			}
			base, bctx := v.Ctx.resolve(fa.X)
			// base is a lookup in a table (value type pointer)
			var lk *ssa.Lookup
			switch b := base.(type) {
			case *ssa.Lookup:
				lk = b
			case *ssa.Extract:
				if l, ok := b.Tuple.(*ssa.Lookup); ok && b.Index == 0 {
					lk = l
				}
			}
			if lk == nil {
				continue
			}
			if _, isPtr := lk.Type().Underlying().(*types.Pointer); !isPtr {
				if tup, ok := lk.Type().(*types.Tuple); !ok || tup.Len() == 0 {
					continue
				} else if _, isPtr := tup.At(0).Type().Underlying().(*types.Pointer); !isPtr {
					continue
				}
			}
			tf := bctx.fieldOfValue(lk.X)
			if tf == nil || !containsVar(ro.Tables, tf) {
				continue
			}
			lkPath := bctx.path(lk)
			key := shortFn(root) + ":" + shortFn(fa.Parent()) + ":deref(" + stripIDs(lkPath) + ")"
			// guarded by ¬nil(lookup) or ok(lookup)?
			guarded, _ := v.Cond.everyConj(func(c Conj) bool {
				return c.has(func(l Lit) bool {
					return (l.A.Kind == AkNil && l.Neg && l.A.Subj == lkPath) || (l.A.Kind == AkOk && !l.Neg && l.A.Subj == lkPath)
				})
			})
			why := "nil/ok-tested on every path"
			if !guarded {
				// key derived from the companion table's ok-tested lookup, or from ranging over a table
				kv, kctx := bctx.resolve(lk.Index)
				switch k := kv.(type) {
				case *ssa.Lookup:
					kp := kctx.path(k)
					okTested, _ := v.Cond.everyConj(func(c Conj) bool {
						return c.has(func(l Lit) bool { return l.A.Kind == AkOk && !l.Neg && l.A.Subj == kp })
					})
					if okTested {
						guarded = true
						why = "key is the ok-tested result of " + stripIDs(kp) + " (relies on the inverse-tables invariant, C04.3)"
					}
				case *ssa.Extract:
					if l2, ok := k.Tuple.(*ssa.Lookup); ok {
						kp := kctx.path(l2)
						okTested, _ := v.Cond.everyConj(func(c Conj) bool {
							return c.has(func(l Lit) bool { return l.A.Kind == AkOk && !l.Neg && l.A.Subj == kp })
						})
						if okTested {
							guarded = true
							why = "key is the ok-tested result of " + stripIDs(kp) + " (relies on the inverse-tables invariant, C04.3)"
						}
					}
					if _, ok := k.Tuple.(*ssa.Next); ok {
						guarded = true
						why = "key ranges over a table inside the same critical section"
					}
				}
			}
			wit := why
			if !guarded {
				wit = "dereferenced without a nil/ok test under condition " + stripIDs(v.Cond.String())
			}
			if guarded && seen[key] {
				continue // every dereference is judged; those that hold are reported once per key
			}
			seen[key] = true
			a.R.ob(rule, key, "a table lookup keyed by a kernel- or caller-supplied value must be nil/ok-tested before it is dereferenced (the watch may have been removed concurrently)",
				a.P.instrPos(fa), guarded, wit)
		}
	}
	_ = token.MUL
}

package main

import (
	"go/token"
	"go/types"
	"strings"

	"golang.org/x/tools/go/ssa"
)

func init() {
	register(&property{
		Meta: propMeta{
			ID:    "C12",
			Title: "Kernel watches and bookkeeping stay in step; usage is bounded by live watches",
			Explanation: "Resource pairing on the kernel watch descriptor, over every calling context of the inotify backend. Decided: " +
				"(1) acquire: every non-nil entry returned by the registration callback after a successful inotify_add_watch carries exactly that descriptor (it is the existing entry found under it, a fresh entry built with it, or an entry re-pointed to it), and the caller stores it in both tables; " +
				"(2) release: every delete from the wd table is either in a 'kernel says the watch is gone' context (every conjunct of its reaching condition has IN_IGNORED, IN_UNMOUNT or IN_DELETE_SELF of the record being handled) or is matched by inotify_rm_watch on the same descriptor - the same access path in the same calling context, or the descriptor is put into the slice the function returns and the caller calls inotify_rm_watch on each element; conversely every inotify_rm_watch is preceded by the removal of that descriptor's entry; " +
				"(3) the tables stay mutually inverse (C04.3 pairing) and a store to an existing entry's path moves its path-table key; " +
				"(4) both syscalls are issued on the Watcher's own descriptor field; " +
				"(5) when the kernel reports a watch gone (IN_IGNORED, IN_UNMOUNT, IN_DELETE_SELF) both table entries of that watch are deleted on every path (no listed path without a kernel watch). " +
				"Not decided: the kernel's mark list itself; quiescence; early return of the release loop on a syscall error (exempt).",
			Rule:        "one obligation per callback return, per wd-table delete and calling root, per inotify_rm_watch call, per syscall descriptor operand; non-trivial = site reachable",
			Assumptions: []string{"go/types + go/ssa", "inotify(7): the kernel drops a watch itself on IN_IGNORED/IN_DELETE_SELF/IN_UNMOUNT", "production folding (E-F)"},
			MinObl:      30,
		},
		Configs: tiered(linuxQuick, linuxAll),
		Run:     runC12,
	})
}

func runC12(p *Program, e *Engine, r *Result, tier string) {
	a := newAn(p, e, r, true)
	if a == nil {
		return
	}
	tf := findTables(a)
	if tf == nil {
		return
	}
	ro := a.Ro
	roots := []*ssa.Function{ro.API["AddWith"], ro.API["Remove"]}
	roots = append(roots, ro.Readers...)
	c12Acquire(a, tf, ro.API["AddWith"])
	// (5) no listed path without a kernel watch: kernel-says-gone records remove both entries (shared with C09.1)
	if df := decodeFacts(a); df != nil {
		if w, hv0, hctx, entry, watchLit, maskSubj := handlerFrame(a, df, tf); hctx != nil {
			c09Cleanup(a, tf, hctx, entry, *watchLit, watchLit.A.Subj, maskSubj, collectTableOps(a, tf, w), "C12.5")
			// (7) a watch whose file was renamed away is released (otherwise rename cycles accumulate kernel watches and
			// entries under dead names): shared with C09.2
			c09MoveSelf(a, df, tf, hv0, hctx, entry, *watchLit, watchLit.A.Subj, maskSubj, "C12.7")
		}
	}
	c04Replace(a, tf, ro.API["AddWith"], "C12.6")
	for _, root := range roots {
		c12Release(a, tf, root, "C12.2")
		pairTables(a, tf, root, "C12.3")
		c12PathStores(a, tf, root, "C12.3")
		c12FdOrigin(a, root)
	}
}

func kernelGone(a *An, c Conj) bool {
	return c.has(func(l Lit) bool { return bitsWithin(l, a, "IN_IGNORED", "IN_UNMOUNT", "IN_DELETE_SELF") })
}

func c12Acquire(a *An, tf *tableFacts, addWith *ssa.Function) {
	af := addFlow(a, tf, addWith)
	if af == nil {
		return
	}
	n := 0
	seen := map[string]bool{}
	for _, se := range af.stores {
		if se.kind == "nil" {
			continue
		}
		n++
		under, bad := se.e.Cond.everyConj(func(c Conj) bool { return c.has(af.succ) })
		form := map[string]string{
			"alias":     "the existing entry found under the new descriptor",
			"fresh":     "a fresh entry built with the new descriptor",
			"repointed": "the previous entry re-pointed to the new descriptor",
		}[se.kind]
		ok := form != ""
		wit := form
		if !ok {
			wit = "stored entry " + tail(stripIDs(se.e.Ctx.path(se.e.V)), 100) + " is not tied to the descriptor just obtained"
		}
		if !under {
			ok = false
			wit += "; stored without a successful inotify_add_watch under " + tail(stripIDs(bad.String()), 200)
		}
		key := "acquire:stored(" + se.kind + ")"
		if seen[key] && ok {
			continue
		}
		seen[key] = true
		a.R.ob("C12.1", key, "an entry stored in the wd table on the Add flow carries the descriptor the kernel just returned (a successful Add is always recorded under its wd)",
			a.P.instrPos(se.site.Instr), ok, wit)
	}
	if n == 0 {
		a.R.fail("no entry is stored into the wd table on the Add flow (vacuous)")
	}
}

func c12Release(a *An, tf *tableFacts, root *ssa.Function, rule string) {
	w := a.walk(root)
	ops := collectTableOps(a, tf, w)
	rms := syscallVisits(a, w, "InotifyRmWatch")
	for _, op := range ops {
		if op.Kind != "delete" || op.Table != tf.wdTable {
			continue
		}
		key := sprintf("%s:release(%s)", shortFn(root), tail(stripCallArgs(op.Key), 70))
		gone, _ := op.V.Cond.everyConj(func(c Conj) bool { return kernelGone(a, c) })
		if gone {
			a.R.ob(rule, key, "a descriptor leaves the wd table only when the kernel dropped the watch itself or together with inotify_rm_watch on it", a.P.instrPos(op.V.Instr), true,
				"kernel-says-gone context (IN_IGNORED / IN_UNMOUNT / IN_DELETE_SELF of this record)")
			continue
		}
		ok, how := false, ""
		// (i) same access path
		for _, rm := range rms {
			call := rm.Instr.(*ssa.Call)
			if len(call.Call.Args) < 2 {
				continue
			}
			if stripIDs(rm.Ctx.path(call.Call.Args[1])) == op.Key {
				h, ctr, err := implies(op.V.Cond, rm.Cond)
				if err != nil {
					a.R.fail("%v", err)
				}
				if h {
					ok, how = true, "inotify_rm_watch on the same descriptor at "+a.P.instrPos(call)
				} else {
					how = "inotify_rm_watch on the same descriptor is skipped when " + stripIDs(ctr)
				}
			}
		}
		// (ii) the descriptor is put into a slice (under the delete's condition) whose elements all reach inotify_rm_watch:
		// through returns to callers, arguments to helpers, appends and phis
		if !ok {
			conts, hw, handed := keyContainers(w, op)
			if handed {
				// every slice the key can be in must have its elements released
				all := true
				for _, ct := range conts {
					elems := sliceElements([]cv{ct})
					one := false
					for _, rm := range rms {
						rcall := rm.Instr.(*ssa.Call)
						rv, rc := rm.Ctx.resolve(stripConv(rcall.Call.Args[1]))
						if elems[cv{rc, stripConv(rv)}] {
							one = true
							how = hw + "; " + shortFn(rm.Ctx.Fn) + " calls inotify_rm_watch on every element at " + a.P.instrPos(rcall)
						}
					}
					if !one {
						all = false
					}
				}
				ok = all
				if !ok {
					how = hw + ", but the elements of that slice do not all reach inotify_rm_watch"
				}
			} else if hw != "" {
				how = hw
			}
		}
		if how == "" {
			how = "no inotify_rm_watch for this descriptor in this calling context, and not a kernel-says-gone context: " + stripIDs(op.V.Cond.String())
		}
		a.R.ob(rule, key, "a descriptor leaves the wd table only when the kernel dropped the watch itself or together with inotify_rm_watch on it", a.P.instrPos(op.V.Instr), ok, how)
	}
	// converse: every inotify_rm_watch is tied to a table removal in the same calling context
	seen := map[string]bool{}
	for _, rm := range rms {
		call := rm.Instr.(*ssa.Call)
		ap := stripIDs(rm.Ctx.path(call.Call.Args[1]))
		key := sprintf("%s:rm_watch(%s)", shortFn(root), tail(stripCallArgs(ap), 70))
		ok, how := false, ""
		for _, op := range ops {
			if op.Kind != "delete" || op.Table != tf.wdTable {
				continue
			}
			if op.Key == ap && op.V.Seq < rm.Seq {
				ok, how = true, "entry deleted at "+a.P.instrPos(op.V.Instr)
			}
			if conts, _, handed := keyContainers(w, op); handed && !ok {
				rv, rc := rm.Ctx.resolve(stripConv(call.Call.Args[1]))
				if sliceElements(conts)[cv{rc, stripConv(rv)}] {
					ok, how = true, "element of a slice of removed descriptors (entry deleted at "+a.P.instrPos(op.V.Instr)+")"
				}
			}
		}
		if !ok {
			how = "no wd-table removal of " + ap + " precedes it in this calling context (the tables would keep an entry the kernel no longer has)"
		}
		if ok && seen[key] {
			continue // every site is judged; sites that hold are reported once per key
		}
		seen[key] = true
		a.R.ob(rule, key, "inotify_rm_watch is issued only for a descriptor whose entry was just taken out of the tables", a.P.instrPos(call), ok, how)
	}
}

// cv is a value in a context.
type cv struct {
	c *Ctx
	v ssa.Value
}

// keyContainers: the slices the deleted key value is placed into (slice literal, variadic append), under a condition
// implied by the delete's.
func keyContainers(w *Walker, op tableOp) ([]cv, string, bool) {
	kv, kc := op.V.Ctx.resolve(stripConv(op.KeyV))
	kv = stripConv(kv)
	var out []cv
	how := ""
	var placed DNF // the paths on which the key is put into some slice
	for _, v := range w.Visits {
		st, ok := v.Instr.(*ssa.Store)
		if !ok {
			continue
		}
		ia, ok := st.Addr.(*ssa.IndexAddr)
		if !ok {
			continue
		}
		al, ok := ia.X.(*ssa.Alloc)
		if !ok {
			continue
		}
		sv, sc := v.Ctx.resolve(stripConv(st.Val))
		if stripConv(sv) != kv || sc != kc {
			continue
		}
		placed = placed.or(v.Cond)
		if refs := al.Referrers(); refs != nil {
			for _, r := range *refs {
				if sl, ok := r.(*ssa.Slice); ok && sl.X == ssa.Value(al) {
					out = append(out, cv{v.Ctx, sl})
					how = "the descriptor is put into a slice in " + shortFn(v.Ctx.Fn)
				}
			}
		}
	}
	if len(out) == 0 {
		return nil, "", false
	}
	if h, ctr, err := implies(op.V.Cond, placed); err != nil || !h {
		// placed into a slice only on some of the paths that delete the entry
		return nil, "the descriptor is put into a slice, but not when " + stripIDs(ctr), false
	}
	return out, how, true
}

// sliceInserted follows a slice backwards (appends, phis, variable cells, results of inlined helpers on their live returns,
// parameters) and returns the values that are put into it as elements. complete=false when a source was not understood.
type insElem struct {
	c  *Ctx
	v  ssa.Value
	st *ssa.Store // the store that puts v into the backing array
}

func sliceInserted(c *Ctx, v ssa.Value) (out []insElem, complete bool) {
	complete = true
	seen := map[cv]bool{}
	arrayStores := func(c *Ctx, al *ssa.Alloc) {
		if refs := al.Referrers(); refs != nil {
			for _, r := range *refs {
				if ia, ok := r.(*ssa.IndexAddr); ok {
					if rr := ia.Referrers(); rr != nil {
						for _, u := range *rr {
							if st, ok := u.(*ssa.Store); ok && st.Addr == ssa.Value(ia) {
								out = append(out, insElem{c, st.Val, st})
							}
						}
					}
				}
			}
		}
	}
	var rec func(c *Ctx, v ssa.Value, depth int)
	rec = func(c *Ctx, v ssa.Value, depth int) {
		v = stripConv(v)
		x := cv{c, v}
		if seen[x] || depth > 40 {
			return
		}
		seen[x] = true
		switch t := v.(type) {
		case *ssa.Const, *ssa.MakeSlice:
			return
		case *ssa.Phi:
			for _, e := range t.Edges {
				rec(c, e, depth+1)
			}
		case *ssa.Slice:
			if al, ok := t.X.(*ssa.Alloc); ok {
				if _, isArr := deref(al.Type()).Underlying().(*types.Array); isArr {
					arrayStores(c, al)
					return
				}
			}
			rec(c, t.X, depth+1)
		case *ssa.UnOp:
			if rv, rc := c.resolve(t); rv != ssa.Value(t) || rc != c {
				rec(rc, rv, depth+1) // the store that reaches this load (result cells spilled for a defer, say)
				return
			}
			if al, ok := t.X.(*ssa.Alloc); ok && t.Op == token.MUL {
				for _, st := range cellStores(al) {
					rec(c, st.Val, depth+1)
				}
				return
			}
			complete = false
		case *ssa.Parameter:
			if b, ok := c.Bind[t]; ok {
				rec(b.Ctx, b.Val, depth+1)
				return
			}
			complete = false
		case *ssa.Extract:
			if call, ok := t.Tuple.(*ssa.Call); ok {
				if !liveReturns(c, call, t.Index, func(k *Ctx, r ssa.Value) { rec(k, r, depth+1) }) {
					complete = false
				}
				return
			}
			complete = false
		case *ssa.Call:
			if bi, ok := t.Call.Value.(*ssa.Builtin); ok && bi.Name() == "append" {
				for _, a := range t.Call.Args {
					rec(c, a, depth+1)
				}
				return
			}
			if !liveReturns(c, t, 0, func(k *Ctx, r ssa.Value) { rec(k, r, depth+1) }) {
				complete = false
			}
		default:
			complete = false
		}
	}
	rec(c, v, 0)
	return out, complete
}

// liveReturns calls f with the idx-th result of every return of the inlined callee that is reachable under the
// call's bindings (constant arguments fold the callee's branches).
func liveReturns(c *Ctx, call *ssa.Call, idx int, f func(*Ctx, ssa.Value)) bool {
	k := c.calleeCtx(call, &call.Call)
	if k == nil {
		return false
	}
	conds, err := k.conds()
	if err != nil {
		return false
	}
	n := 0
	for _, b := range k.Fn.Blocks {
		if len(b.Instrs) == 0 {
			continue
		}
		r, ok := b.Instrs[len(b.Instrs)-1].(*ssa.Return)
		if !ok || idx >= len(r.Results) {
			continue
		}
		if d, ok := conds[b]; !ok || d.isFalse() {
			continue
		}
		n++
		f(k, r.Results[idx])
	}
	return n > 0
}

// sliceElements follows slices forward (append, phi, local variable cells, reslicing, returns to the calling context,
// arguments of inlined helpers) and returns the values read from their elements.
func sliceElements(start []cv) map[cv]bool {
	elems := map[cv]bool{}
	seen := map[cv]bool{}
	work := append([]cv(nil), start...)
	push := func(c *Ctx, v ssa.Value) {
		x := cv{c, v}
		if !seen[x] {
			seen[x] = true
			work = append(work, x)
		}
	}
	for _, s := range start {
		seen[s] = true
	}
	for len(work) > 0 && len(seen) < 4000 {
		cur := work[0]
		work = work[1:]
		refs := cur.v.Referrers()
		if refs == nil {
			continue
		}
		for _, r := range *refs {
			switch x := r.(type) {
			case *ssa.Phi:
				push(cur.c, x)
			case *ssa.Slice:
				if x.X == cur.v {
					push(cur.c, x)
				}
			case *ssa.ChangeType:
				push(cur.c, x)
			case *ssa.Convert:
				push(cur.c, x)
			case *ssa.Store:
				if x.Val == cur.v {
					if al, ok := x.Addr.(*ssa.Alloc); ok {
						if lr := al.Referrers(); lr != nil {
							for _, u := range *lr {
								if ld, ok := u.(*ssa.UnOp); ok && ld.Op == token.MUL {
									push(cur.c, ld)
								}
							}
						}
					}
				}
			case *ssa.IndexAddr:
				if x.X == cur.v {
					if lr := x.Referrers(); lr != nil {
						for _, u := range *lr {
							if ld, ok := u.(*ssa.UnOp); ok && ld.Op == token.MUL {
								elems[cv{cur.c, ld}] = true
							}
						}
					}
				}
			case *ssa.Index:
				if x.X == cur.v {
					elems[cv{cur.c, x}] = true
				}
			case *ssa.Range:
				if lr := x.Referrers(); lr != nil {
					for _, u := range *lr {
						if nx, ok := u.(*ssa.Next); ok {
							if nr := nx.Referrers(); nr != nil {
								for _, e := range *nr {
									if ex, ok := e.(*ssa.Extract); ok && ex.Index == 2 {
										elems[cv{cur.c, ex}] = true
									}
								}
							}
						}
					}
				}
			case *ssa.Return:
				if cur.c.Parent == nil {
					continue
				}
				call, ok := cur.c.Site.(*ssa.Call)
				if !ok {
					continue
				}
				for j, res := range x.Results {
					if res != cur.v {
						continue
					}
					if len(x.Results) == 1 {
						push(cur.c.Parent, call)
					} else if cr := call.Referrers(); cr != nil {
						for _, u := range *cr {
							if ex, ok := u.(*ssa.Extract); ok && ex.Index == j {
								push(cur.c.Parent, ex)
							}
						}
					}
				}
			case *ssa.Call:
				if bi, ok := x.Call.Value.(*ssa.Builtin); ok {
					if bi.Name() == "append" {
						push(cur.c, x)
					}
					continue
				}
				if k := cur.c.calleeCtx(x, &x.Call); k != nil {
					for i, arg := range x.Call.Args {
						if arg == cur.v && i < len(k.Fn.Params) {
							push(k, k.Fn.Params[i])
						}
					}
				}
			}
		}
	}
	return elems
}

// c12PathStores: a store to the path field of an existing entry must move its path-table key.
func c12PathStores(a *An, tf *tableFacts, root *ssa.Function, rule string) {
	w := a.walk(root)
	_, pathF := tf.watchFields()
	ops := collectTableOps(a, tf, w)
	for _, v := range w.Visits {
		st, ok := v.Instr.(*ssa.Store)
		if !ok {
			continue
		}
		fa, ok := st.Addr.(*ssa.FieldAddr)
		if !ok || fieldName(fa.X.Type(), fa.Field) != pathF || a.Ro.StructOf[fieldOf(fa)] != tf.watchT {
			continue
		}
		base, bctx := v.Ctx.resolve(fa.X)
		if _, fresh := base.(*ssa.Alloc); fresh {
			continue
		}
		e := stripIDs(bctx.path(base))
		del, ins := false, false
		for _, op := range ops {
			if op.Table != tf.pathTable || op.Key != e+"."+pathF {
				continue
			}
			if eq, _ := condEquivalent(a, v.Cond, op.V.Cond); !eq {
				continue
			}
			if op.Kind == "delete" && op.V.Seq < v.Seq {
				del = true
			}
			if op.Kind == "update" && op.V.Seq > v.Seq {
				ins = true
			}
		}
		a.R.ob(rule, sprintf("%s:path-store(%s)", shortFn(root), tail(stripCallArgs(e), 60)), "rewriting an existing entry's path must move its path-table key (delete the old key before, insert the new key after)",
			a.P.instrPos(st), del && ins, sprintf("old key deleted before: %v; new key inserted after: %v", del, ins))
	}
}

func c12FdOrigin(a *An, root *ssa.Function) {
	w := a.walk(root)
	seen := map[string]bool{}
	for _, name := range []string{"InotifyAddWatch", "InotifyRmWatch"} {
		for _, v := range syscallVisits(a, w, name) {
			call := v.Instr.(*ssa.Call)
			p := stripIDs(v.Ctx.path(call.Call.Args[0]))
			key := sprintf("%s:%s:fd", shortFn(call.Parent()), name)
			f := v.Ctx.fieldOfValue(call.Call.Args[0])
			ok := strings.HasPrefix(p, "recv.") && f != nil && a.Ro.StructOf[f] == a.Ro.Backend
			if ok && seen[key] {
				continue
			}
			seen[key] = true
			a.R.ob("C12.4", key, "the syscall addresses the Watcher's own inotify descriptor", a.P.instrPos(call), ok, "descriptor operand: "+p)
		}
	}
}

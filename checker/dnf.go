package main

// Reaching conditions as DNF over recognised atoms (engine E-B of DESIGN.md).

import (
	"fmt"
	"sort"
	"strings"

	"golang.org/x/tools/go/ssa"
)

// Atom kinds
const (
	AkBit    = "bit"    // single bit K of Subj is set
	AkAny    = "any"    // Subj & K != 0 (multi-bit K)
	AkAll    = "all"    // Subj & K == K (multi-bit K)
	AkNil    = "nil"    // Subj == nil
	AkOk     = "ok"     // comma-ok of a map lookup / type assert / receive : Subj is the looked-up expression
	AkBool   = "bool"   // boolean value Subj (field load, parameter, call result of pure fn)
	AkPred   = "pred"   // result of a (possibly impure) bool function: Subj = call path
	AkErrIs  = "errIs"  // errors.Is(Subj, K)
	AkCmp    = "cmp"    // Subj <op> K, op in ==,<,<=  (others expressed by negation / swapping)
	AkOpaque = "opaque" // anything else
)

type Atom struct {
	Kind string
	Subj string
	K    string
	Bits uint64 // for bit/any/all
	Op   string // for cmp
	// SubjType: the type of the subject of a bit test, when known (to recognise "a test of an Op value" whatever its path)
	SubjType string
	V        ssa.Value
	Ctx      *Ctx
	// for AkPred / AkBool on calls
	Callee *ssa.Function
	Call   *ssa.Call
}

func (a *Atom) ID() string {
	switch a.Kind {
	case AkBit, AkAny, AkAll:
		return fmt.Sprintf("%s(%s,%#x)", a.Kind, a.Subj, a.Bits)
	case AkCmp:
		return fmt.Sprintf("cmp(%s%s%s)", a.Subj, a.Op, a.K)
	case AkErrIs:
		return fmt.Sprintf("errIs(%s,%s)", a.Subj, a.K)
	}
	return fmt.Sprintf("%s(%s)", a.Kind, a.Subj)
}

// isOpSubj: the atom tests bits of a value of the Op type (by its path ending in the Op field, or by its type).
func isOpSubj(a *Atom) bool {
	return strings.HasSuffix(a.Subj, ".Op") || strings.HasSuffix(a.SubjType, ".Op")
}

type Lit struct {
	A   *Atom
	Neg bool
}

func (l Lit) String() string {
	if l.Neg {
		return "!" + l.A.ID()
	}
	return l.A.ID()
}

// Conj is a conjunction of literals keyed by atom ID.
type Conj map[string]Lit

func (c Conj) clone() Conj {
	n := make(Conj, len(c)+1)
	for k, v := range c {
		n[k] = v
	}
	return n
}

func (c Conj) String() string {
	if len(c) == 0 {
		return "true"
	}
	ks := make([]string, 0, len(c))
	for _, l := range c {
		ks = append(ks, l.String())
	}
	sort.Strings(ks)
	return strings.Join(ks, " & ")
}

// and returns c ∧ l, or nil if contradictory.
func (c Conj) and(l Lit) Conj {
	id := l.A.ID()
	if o, ok := c[id]; ok {
		if o.Neg != l.Neg {
			return nil
		}
		return c
	}
	n := c.clone()
	n[id] = l
	if n.contradictory() {
		return nil
	}
	return n
}

// contradictory applies the small bit theory: all(K) ⇒ any(K'), bit(k) for k∈K; ¬any(K) ⇒ ¬bit(k).
func (c Conj) contradictory() bool {
	// collect per-subject known-set and known-clear bits
	type kb struct{ set, clr uint64 }
	m := map[string]*kb{}
	get := func(s string) *kb {
		if m[s] == nil {
			m[s] = &kb{}
		}
		return m[s]
	}
	for _, l := range c {
		switch l.A.Kind {
		case AkBit:
			if l.Neg {
				get(l.A.Subj).clr |= l.A.Bits
			} else {
				get(l.A.Subj).set |= l.A.Bits
			}
		case AkAll:
			if !l.Neg {
				get(l.A.Subj).set |= l.A.Bits
			}
		case AkAny:
			if l.Neg {
				get(l.A.Subj).clr |= l.A.Bits
			}
		}
	}
	for _, k := range m {
		if k.set&k.clr != 0 {
			return true
		}
	}
	for _, l := range c {
		k := m[l.A.Subj]
		if k == nil {
			continue
		}
		switch l.A.Kind {
		case AkAll:
			if l.Neg && k.set&l.A.Bits == l.A.Bits {
				return true
			}
		case AkAny:
			if !l.Neg && k.clr&l.A.Bits == l.A.Bits {
				return true
			}
		}
	}
	return false
}

func (c Conj) subsetOf(d Conj) bool {
	if len(c) > len(d) {
		return false
	}
	for k, l := range c {
		if o, ok := d[k]; !ok || o.Neg != l.Neg {
			return false
		}
	}
	return true
}

// DNF: disjunction of conjunctions. nil/empty = false. A single empty Conj = true.
type DNF []Conj

func dnfTrue() DNF  { return DNF{Conj{}} }
func dnfFalse() DNF { return nil }

func (d DNF) isTrue() bool {
	for _, c := range d {
		if len(c) == 0 {
			return true
		}
	}
	return false
}
func (d DNF) isFalse() bool { return len(d) == 0 }

func (d DNF) String() string {
	if d.isFalse() {
		return "false"
	}
	ss := make([]string, len(d))
	for i, c := range d {
		ss[i] = "(" + c.String() + ")"
	}
	sort.Strings(ss)
	return strings.Join(ss, " | ")
}

const maxConj = 2048

type dnfOverflow struct{}

func (d DNF) andLit(l Lit) DNF {
	var out DNF
	for _, c := range d {
		if n := c.and(l); n != nil {
			out = append(out, n)
		}
	}
	return out.simplify()
}

func (d DNF) and(e DNF) DNF {
	if d.isTrue() && len(d) == 1 {
		return e
	}
	if e.isTrue() && len(e) == 1 {
		return d
	}
	var out DNF
	for _, c := range d {
		for _, f := range e {
			n := c
			ok := true
			for _, l := range f {
				n = n.and(l)
				if n == nil {
					ok = false
					break
				}
			}
			if ok {
				out = append(out, n)
			}
		}
		if len(out) > maxConj*4 {
			panic(dnfOverflow{})
		}
	}
	return out.simplify()
}

func (d DNF) or(e DNF) DNF {
	out := make(DNF, 0, len(d)+len(e))
	out = append(out, d...)
	out = append(out, e...)
	return out.simplify()
}

// simplify: absorption, resolution (A∧x ∨ A∧¬x → A) and x ∨ (y∧¬x) → x ∨ y, to a fixpoint.
func (d DNF) simplify() DNF {
	if len(d) <= 1 {
		return d
	}
	cur := make(DNF, len(d))
	copy(cur, d)
	for changed := true; changed; {
		changed = false
		// absorption + dedup
		sort.SliceStable(cur, func(i, j int) bool { return len(cur[i]) < len(cur[j]) })
		var keep DNF
		for _, c := range cur {
			abs := false
			for _, k := range keep {
				if k.subsetOf(c) {
					abs = true
					break
				}
			}
			if !abs {
				keep = append(keep, c)
			}
		}
		if len(keep) != len(cur) {
			changed = true
		}
		cur = keep
		// generalised resolution: C1 = A∧l, C2 ⊇ A ∧ ¬l  ⇒  C2 := C2 \ {¬l}
	outer:
		for i := range cur {
			for j := range cur {
				if i == j {
					continue
				}
				c1, c2 := cur[i], cur[j]
				if len(c1) > len(c2) {
					continue
				}
				var conflict string
				n := 0
				ok := true
				for k, l := range c1 {
					o, has := c2[k]
					if !has {
						ok = false
						break
					}
					if o.Neg != l.Neg {
						conflict = k
						n++
					}
				}
				if ok && n == 1 {
					nc := c2.clone()
					delete(nc, conflict)
					cur[j] = nc
					changed = true
					break outer
				}
			}
		}
	}
	if len(cur) > maxConj {
		panic(dnfOverflow{})
	}
	return cur
}

// ---------------------------------------------------------------------------
// Semantic implication by truth table over base variables.

type baseVar struct {
	key string // "bit:subj:k" or atom id
}

func collectBase(ds ...DNF) (bits map[string]uint64, others map[string]bool) {
	bits = map[string]uint64{}
	others = map[string]bool{}
	for _, d := range ds {
		for _, c := range d {
			for _, l := range c {
				switch l.A.Kind {
				case AkBit, AkAny, AkAll:
					bits[l.A.Subj] |= l.A.Bits
				default:
					others[l.A.ID()] = true
				}
			}
		}
	}
	return
}

type assignment struct {
	bits   map[string]uint64
	others map[string]bool
}

func (l Lit) eval(a *assignment) bool {
	var v bool
	switch l.A.Kind {
	case AkBit, AkAll:
		v = a.bits[l.A.Subj]&l.A.Bits == l.A.Bits
	case AkAny:
		v = a.bits[l.A.Subj]&l.A.Bits != 0
	default:
		v = a.others[l.A.ID()]
	}
	return v != l.Neg
}

func (d DNF) eval(a *assignment) bool {
	for _, c := range d {
		ok := true
		for _, l := range c {
			if !l.eval(a) {
				ok = false
				break
			}
		}
		if ok {
			return true
		}
	}
	return false
}

// implies reports whether p ⇒ q for every assignment of the base variables; a counterexample is returned otherwise.
// err non-nil means "too many variables" (undecided). Decided conjunct by conjunct: for each conjunct c of p the
// literals of c fix their variables and only the remaining variables of q are enumerated.
func implies(p, q DNF) (holds bool, counter string, err error) {
	if q.isTrue() || p.isFalse() {
		return true, "", nil
	}
	for _, c := range p {
		h, ctr, e := conjImplies(c, q)
		if e != nil {
			return false, "", e
		}
		if !h {
			return false, ctr, nil
		}
	}
	return true, "", nil
}

func conjImplies(c Conj, q DNF) (bool, string, error) {
	// quick syntactic check
	for _, qc := range q {
		if qc.subsetOf(c) {
			return true, "", nil
		}
	}
	a := &assignment{bits: map[string]uint64{}, others: map[string]bool{}}
	fixedBits := map[string]uint64{} // bits whose value is fixed by c
	fixedOther := map[string]bool{}
	for _, l := range c {
		switch l.A.Kind {
		case AkBit:
			fixedBits[l.A.Subj] |= l.A.Bits
			if !l.Neg {
				a.bits[l.A.Subj] |= l.A.Bits
			}
		case AkAll:
			if !l.Neg {
				fixedBits[l.A.Subj] |= l.A.Bits
				a.bits[l.A.Subj] |= l.A.Bits
			}
		case AkAny:
			if l.Neg {
				fixedBits[l.A.Subj] |= l.A.Bits
			}
		default:
			fixedOther[l.A.ID()] = true
			a.others[l.A.ID()] = !l.Neg
		}
	}
	// free variables: bits and atoms of q (and of c's multi-bit literals) that are not fixed
	qbits, qothers := collectBase(q, DNF{c})
	type bv struct {
		subj string
		bit  uint64
	}
	var bvs []bv
	for s, m := range qbits {
		for b := uint64(1); b != 0 && b <= m; b <<= 1 {
			if m&b != 0 && fixedBits[s]&b == 0 {
				bvs = append(bvs, bv{s, b})
			}
		}
	}
	sort.Slice(bvs, func(i, j int) bool {
		if bvs[i].subj != bvs[j].subj {
			return bvs[i].subj < bvs[j].subj
		}
		return bvs[i].bit < bvs[j].bit
	})
	var ovs []string
	for o := range qothers {
		if !fixedOther[o] {
			ovs = append(ovs, o)
		}
	}
	sort.Strings(ovs)
	n := len(bvs) + len(ovs)
	if n > 22 {
		// too many for a truth table: search for a counterexample by case splitting with three-valued evaluation
		return splitImplies(c, q, n)
	}
	base := map[string]uint64{}
	for k, v := range a.bits {
		base[k] = v
	}
	cd := DNF{c}
	for m := uint64(0); m < 1<<uint(n); m++ {
		for k := range a.bits {
			a.bits[k] = base[k]
		}
		for i, b := range bvs {
			if m&(1<<uint(i)) != 0 {
				a.bits[b.subj] |= b.bit
			}
		}
		for i, o := range ovs {
			a.others[o] = m&(1<<uint(len(bvs)+i)) != 0
		}
		if cd.eval(a) && !q.eval(a) {
			var parts []string
			for _, l := range c {
				parts = append(parts, l.String())
			}
			sort.Strings(parts)
			for i, b := range bvs {
				if m&(1<<uint(i)) != 0 {
					parts = append(parts, fmt.Sprintf("bit(%s,%#x)", b.subj, b.bit))
				}
			}
			for i, o := range ovs {
				if m&(1<<uint(len(bvs)+i)) != 0 {
					parts = append(parts, o)
				}
			}
			return false, "{" + strings.Join(parts, ", ") + "} (all other atoms false)", nil
		}
	}
	return true, "", nil
}

// everyConj reports whether each conjunct satisfies f; returns the first failing conjunct otherwise.
func (d DNF) everyConj(f func(Conj) bool) (bool, Conj) {
	for _, c := range d {
		if !f(c) {
			return false, c
		}
	}
	return true, nil
}

// has reports whether c contains a literal satisfying f.
func (c Conj) has(f func(Lit) bool) bool {
	for _, l := range c {
		if f(l) {
			return true
		}
	}
	return false
}

// ---------------------------------------------------------------------------
// Implication by case splitting (used beyond the truth-table bound): look for an assignment with c true and q false.
// Literals are evaluated three-valued under a partial assignment; a branch is cut as soon as c is false or q is true.

type partial struct {
	bitsSet, bitsVal map[string]uint64
	oth              map[string]bool
	nodes            int
}

func (p *partial) lit3(l Lit) int {
	v := -1
	switch l.A.Kind {
	case AkBit, AkAll:
		m := l.A.Bits
		set, val := p.bitsSet[l.A.Subj], p.bitsVal[l.A.Subj]
		if set&m&^val != 0 {
			v = 0
		} else if set&m == m {
			v = 1
		}
	case AkAny:
		m := l.A.Bits
		set, val := p.bitsSet[l.A.Subj], p.bitsVal[l.A.Subj]
		if val&m != 0 {
			v = 1
		} else if set&m == m {
			v = 0
		}
	default:
		if b, ok := p.oth[l.A.ID()]; ok {
			if b {
				v = 1
			} else {
				v = 0
			}
		}
	}
	if v >= 0 && l.Neg {
		v = 1 - v
	}
	return v
}

// conj3: 1 all literals true, 0 some literal false, -1 otherwise; also returns an undecided literal.
func (p *partial) conj3(c Conj) (int, *Lit) {
	var und *Lit
	ids := make([]string, 0, len(c))
	for id := range c {
		ids = append(ids, id)
	}
	sort.Strings(ids)
	for _, id := range ids {
		l := c[id]
		switch p.lit3(l) {
		case 0:
			return 0, nil
		case -1:
			if und == nil {
				ll := l
				und = &ll
			}
		}
	}
	if und == nil {
		return 1, nil
	}
	return -1, und
}

func splitImplies(c Conj, q DNF, n int) (bool, string, error) {
	p := &partial{bitsSet: map[string]uint64{}, bitsVal: map[string]uint64{}, oth: map[string]bool{}}
	var rec func() (bool, error) // true: counterexample found (left in p)
	rec = func() (bool, error) {
		p.nodes++
		if p.nodes > 3000000 {
			return false, fmt.Errorf("implication over %d free variables: case split exceeded its budget (undecided)", n)
		}
		cv, cu := p.conj3(c)
		if cv == 0 {
			return false, nil
		}
		var pick *Lit
		best := 1 << 30
		allFalse := true
		for _, qc := range q {
			v, u := p.conj3(qc)
			if v == 1 {
				return false, nil // q holds on every completion
			}
			if v == -1 {
				allFalse = false
				cnt := 0
				for _, l := range qc {
					if p.lit3(l) == -1 {
						cnt++
					}
				}
				if cnt < best {
					best, pick = cnt, u
				}
			}
		}
		if allFalse {
			if cv == 1 {
				return true, nil
			}
			pick = cu
		}
		if pick == nil {
			pick = cu
		}
		if pick == nil {
			return false, nil
		}
		// branch on one variable of the picked literal
		switch pick.A.Kind {
		case AkBit, AkAll, AkAny:
			subj := pick.A.Subj
			var bit uint64
			for b := uint64(1); b != 0 && b <= pick.A.Bits; b <<= 1 {
				if pick.A.Bits&b != 0 && p.bitsSet[subj]&b == 0 {
					bit = b
					break
				}
			}
			if bit == 0 {
				return false, nil
			}
			for _, val := range []bool{true, false} {
				p.bitsSet[subj] |= bit
				if val {
					p.bitsVal[subj] |= bit
				} else {
					p.bitsVal[subj] &^= bit
				}
				found, err := rec()
				if found || err != nil {
					return found, err
				}
			}
			p.bitsSet[subj] &^= bit
			p.bitsVal[subj] &^= bit
		default:
			id := pick.A.ID()
			for _, val := range []bool{true, false} {
				p.oth[id] = val
				found, err := rec()
				if found || err != nil {
					return found, err
				}
			}
			delete(p.oth, id)
		}
		return false, nil
	}
	found, err := rec()
	if err != nil {
		return false, "", err
	}
	if !found {
		return true, "", nil
	}
	var parts []string
	for s, set := range p.bitsSet {
		for b := uint64(1); b != 0 && b <= set; b <<= 1 {
			if set&b != 0 && p.bitsVal[s]&b != 0 {
				parts = append(parts, fmt.Sprintf("bit(%s,%#x)", s, b))
			}
		}
	}
	for id, v := range p.oth {
		if v {
			parts = append(parts, id)
		}
	}
	sort.Strings(parts)
	return false, "{" + strings.Join(parts, ", ") + "} (all other atoms false)", nil
}

package main

// Role discovery (DESIGN.md 1.2) and production-configuration folding (E-F).

import (
	"fmt"
	"go/constant"
	"go/token"
	"go/types"
	"io"
	"sort"
	"strings"

	"golang.org/x/tools/go/ssa"
)

type Roles struct {
	P           *Program
	Watcher     *types.Named
	Iface       *types.Named // the unexported backend interface
	Event       *types.Named
	Op          *types.Named
	NewWatcher  *ssa.Function
	NewBuffered *ssa.Function
	Ctor        *ssa.Function
	Backend     *types.Named
	API         map[string]*ssa.Function
	Readers     []*ssa.Function
	EventChans  []*types.Var // struct fields of type chan Event
	ErrChans    []*types.Var // struct fields of type chan error
	Done        *types.Var
	CloseFns    []*ssa.Function // functions containing close(done)
	ChanClosers map[*ssa.Function]int // functions that close their channel parameter #i (methods of a named channel type)
	ChanTesters map[*ssa.Function]int // functions that poll their channel parameter #i and answer with a bool
	IsClosed    []*ssa.Function
	SendEvent   []*ssa.Function
	SendError   []*ssa.Function
	// SendWrap: helpers that do nothing but hand their own parameters to the send functions (`emit(ev, err)`); for each,
	// the index of the parameter that is sent as the event / as the error (-1: none)
	SendWrap    map[*ssa.Function][2]int
	Locks       []*types.Var
	Tables      []*types.Var
	StructOf    map[*types.Var]*types.Named
	ErrClosed   *ssa.Global
	ErrNonExist *ssa.Global
	ErrOverflow *ssa.Global
}

func (ro *Roles) print(w io.Writer) {
	fmt.Fprintf(w, "backend type: %s (constructor %s)\n", ro.Backend.Obj().Name(), shortFn(ro.Ctor))
	var names []string
	for n := range ro.API {
		names = append(names, n)
	}
	sort.Strings(names)
	fmt.Fprintf(w, "API methods: %s\n", strings.Join(names, ", "))
	for _, r := range ro.Readers {
		fmt.Fprintf(w, "reader root: %s\n", shortFn(r))
	}
	fmt.Fprintf(w, "done: %s; close fns: %v; isClosed: %v\n", fieldStr(ro, ro.Done), fnNames(ro.CloseFns), fnNames(ro.IsClosed))
	fmt.Fprintf(w, "sendEvent: %v sendError: %v\n", fnNames(ro.SendEvent), fnNames(ro.SendError))
	fmt.Fprintf(w, "locks: %v\n", varNames(ro, ro.Locks))
	fmt.Fprintf(w, "tables: %v\n", varNames(ro, ro.Tables))
	fmt.Fprintf(w, "event chans: %v err chans: %v\n", varNames(ro, ro.EventChans), varNames(ro, ro.ErrChans))
}

func fieldStr(ro *Roles, v *types.Var) string {
	if v == nil {
		return "<nil>"
	}
	if n := ro.StructOf[v]; n != nil {
		return n.Obj().Name() + "." + v.Name()
	}
	return v.Name()
}
func varNames(ro *Roles, vs []*types.Var) []string {
	var out []string
	for _, v := range vs {
		out = append(out, fieldStr(ro, v))
	}
	return out
}
func fnNames(fs []*ssa.Function) []string {
	var out []string
	for _, f := range fs {
		out = append(out, shortFn(f))
	}
	return out
}

func isChanOf(t types.Type, elem func(types.Type) bool) bool {
	ch, ok := t.Underlying().(*types.Chan)
	return ok && elem(ch.Elem())
}

func isNamed(t types.Type, pkg, name string) bool {
	n, ok := t.(*types.Named)
	if !ok {
		return false
	}
	o := n.Obj()
	if o.Name() != name {
		return false
	}
	if pkg == "" {
		return true
	}
	return o.Pkg() != nil && o.Pkg().Path() == pkg
}

func isErrorType(t types.Type) bool {
	n, ok := t.(*types.Named)
	return ok && n.Obj().Pkg() == nil && n.Obj().Name() == "error"
}

func isEmptyStruct(t types.Type) bool {
	s, ok := t.Underlying().(*types.Struct)
	return ok && s.NumFields() == 0
}

// fieldOf returns the struct field addressed/read by v (FieldAddr or Field), looking through loads.
func fieldOf(v ssa.Value) *types.Var {
	for i := 0; i < 8; i++ {
		switch x := v.(type) {
		case *ssa.FieldAddr:
			st := deref(x.X.Type()).Underlying().(*types.Struct)
			return st.Field(x.Field)
		case *ssa.Field:
			st := x.X.Type().Underlying().(*types.Struct)
			return st.Field(x.Field)
		case *ssa.UnOp:
			if x.Op == token.MUL {
				v = x.X
				continue
			}
			return nil
		case *ssa.ChangeType:
			v = x.X
			continue
		case *ssa.Convert:
			v = x.X
			continue
		case *ssa.Call:
			// a trivial accessor: `func (w *T) stopped() <-chan struct{} { return w.done }`
			if f := getterField(x.Call.StaticCallee()); f != nil {
				return f
			}
			return nil
		default:
			return nil
		}
	}
	return nil
}

func discoverRoles(p *Program, e *Engine) (*Roles, error) {
	ro := &Roles{P: p, API: map[string]*ssa.Function{}, StructOf: map[*types.Var]*types.Named{}}
	scope := p.MainTy.Scope()
	get := func(name string) (*types.Named, error) {
		o := scope.Lookup(name)
		if o == nil {
			return nil, fmt.Errorf("anchor unresolved: public type %s", name)
		}
		n, ok := o.Type().(*types.Named)
		if !ok {
			return nil, fmt.Errorf("anchor unresolved: %s is not a named type", name)
		}
		return n, nil
	}
	var err error
	if ro.Watcher, err = get("Watcher"); err != nil {
		return nil, err
	}
	if ro.Event, err = get("Event"); err != nil {
		return nil, err
	}
	if ro.Op, err = get("Op"); err != nil {
		return nil, err
	}
	ws, ok := ro.Watcher.Underlying().(*types.Struct)
	if !ok {
		return nil, fmt.Errorf("anchor unresolved: Watcher is not a struct")
	}
	for i := 0; i < ws.NumFields(); i++ {
		if _, isI := ws.Field(i).Type().Underlying().(*types.Interface); isI {
			if n, ok := ws.Field(i).Type().(*types.Named); ok {
				ro.Iface = n
			}
		}
	}
	if ro.Iface == nil {
		return nil, fmt.Errorf("anchor unresolved: Watcher has no interface-typed backend field")
	}
	ro.NewWatcher = p.Main.Func("NewWatcher")
	ro.NewBuffered = p.Main.Func("NewBufferedWatcher")
	if ro.NewWatcher == nil || ro.NewBuffered == nil {
		return nil, fmt.Errorf("anchor unresolved: NewWatcher/NewBufferedWatcher")
	}
	for _, g := range []struct {
		name string
		dst  **ssa.Global
	}{{"ErrClosed", &ro.ErrClosed}, {"ErrNonExistentWatch", &ro.ErrNonExist}, {"ErrEventOverflow", &ro.ErrOverflow}} {
		gv, _ := p.Main.Members[g.name].(*ssa.Global)
		if gv == nil {
			return nil, fmt.Errorf("anchor unresolved: public variable %s", g.name)
		}
		*g.dst = gv
	}
	// constructor: the function returning the interface that NewWatcher calls, directly or through package helpers
	{
		seen := map[*ssa.Function]bool{}
		queue := []*ssa.Function{ro.NewWatcher}
		for len(queue) > 0 && ro.Ctor == nil {
			fn := queue[0]
			queue = queue[1:]
			if seen[fn] {
				continue
			}
			seen[fn] = true
			for _, b := range fn.Blocks {
				for _, in := range b.Instrs {
					c, ok := in.(*ssa.Call)
					if !ok {
						continue
					}
					cal := c.Call.StaticCallee()
					if cal == nil || fnPkg(cal) != p.Main {
						continue
					}
					if cal.Signature.Results().Len() >= 1 && types.Identical(cal.Signature.Results().At(0).Type(), ro.Iface) {
						ro.Ctor = cal
					} else if len(seen) < 8 {
						queue = append(queue, cal)
					}
				}
			}
		}
	}
	if ro.Ctor == nil {
		return nil, fmt.Errorf("anchor unresolved: backend constructor called by NewWatcher")
	}
	// backend type: MakeInterface to the iface inside the constructor
	for _, b := range ro.Ctor.Blocks {
		for _, in := range b.Instrs {
			if mi, ok := in.(*ssa.MakeInterface); ok && types.Identical(mi.Type(), ro.Iface) {
				if n, ok := deref(mi.X.Type()).(*types.Named); ok {
					ro.Backend = n
				}
			}
		}
	}
	if ro.Backend == nil {
		return nil, fmt.Errorf("anchor unresolved: concrete backend type (constructor %s builds none on this configuration)", shortFn(ro.Ctor))
	}
	iface := ro.Iface.Underlying().(*types.Interface)
	for i := 0; i < iface.NumMethods(); i++ {
		name := iface.Method(i).Name()
		m := p.method(ro.Backend, name)
		if m == nil {
			return nil, fmt.Errorf("anchor unresolved: method %s of backend %s", name, ro.Backend.Obj().Name())
		}
		ro.API[name] = m
	}
	// struct fields of the package
	var structs []*types.Named
	for _, name := range scope.Names() {
		if tn, ok := scope.Lookup(name).(*types.TypeName); ok {
			if n, ok := tn.Type().(*types.Named); ok {
				if _, ok := n.Underlying().(*types.Struct); ok {
					structs = append(structs, n)
				}
			}
		}
	}
	for _, n := range structs {
		st := n.Underlying().(*types.Struct)
		for i := 0; i < st.NumFields(); i++ {
			f := st.Field(i)
			ro.StructOf[f] = n
			switch {
			case isChanOf(f.Type(), func(t types.Type) bool { return types.Identical(t, ro.Event) }):
				ro.EventChans = append(ro.EventChans, f)
			case isChanOf(f.Type(), isErrorType):
				ro.ErrChans = append(ro.ErrChans, f)
			case isNamed(f.Type(), "sync", "Mutex") || isNamed(f.Type(), "sync", "RWMutex"):
				if n != ro.Watcher {
					ro.Locks = append(ro.Locks, f)
				}
			}
			if _, ok := f.Type().Underlying().(*types.Map); ok {
				ro.Tables = append(ro.Tables, f)
			}
		}
	}
	// send functions, done, isClosed, close fns
	evSet := map[*types.Var]bool{}
	for _, f := range ro.EventChans {
		evSet[f] = true
	}
	erSet := map[*types.Var]bool{}
	for _, f := range ro.ErrChans {
		erSet[f] = true
	}
	doneCand := map[*types.Var]int{}
	for _, fn := range p.srcFuncs(p.Main) {
		for _, b := range fn.Blocks {
			for _, in := range b.Instrs {
				switch x := in.(type) {
				case *ssa.Send:
					ro.noteSend(fn, x.Chan, evSet, erSet)
				case *ssa.Select:
					hasSend := false
					for _, s := range x.States {
						if s.Dir == types.SendOnly {
							if ro.noteSend(fn, s.Chan, evSet, erSet) {
								hasSend = true
							}
						}
					}
					if hasSend {
						for _, s := range x.States {
							if s.Dir == types.RecvOnly {
								if f := fieldOf(s.Chan); f != nil && isChanOf(f.Type(), isEmptyStruct) {
									doneCand[f]++
								}
							}
						}
					}
				}
			}
		}
	}
	for f, n := range doneCand {
		if ro.Done == nil || n > doneCand[ro.Done] {
			ro.Done = f
		}
	}
	if ro.Done != nil {
		for _, fn := range p.srcFuncs(p.Main) {
			for _, b := range fn.Blocks {
				for _, in := range b.Instrs {
					switch x := in.(type) {
					case *ssa.Call:
						if bi, ok := x.Call.Value.(*ssa.Builtin); ok && bi.Name() == "close" && len(x.Call.Args) == 1 {
							if fieldOf(x.Call.Args[0]) == ro.Done {
								ro.CloseFns = appendFn(ro.CloseFns, fn)
							}
						}
					case *ssa.Select:
						if !x.Blocking && len(x.States) == 1 && x.States[0].Dir == types.RecvOnly && fieldOf(x.States[0].Chan) == ro.Done {
							if fn.Signature.Results().Len() == 1 && isBoolType(fn.Signature.Results().At(0).Type()) {
								ro.IsClosed = appendFn(ro.IsClosed, fn)
							}
						}
					}
				}
			}
		}
	}
	// the done channel behind a small named channel type with methods (`type closeSignal chan struct{}` with raise() /
	// raised()): a function that closes, or polls, its channel PARAMETER passes that role on to every caller that hands
	// it the done field
	if ro.Done != nil {
		type prm struct {
			fn  *ssa.Function
			idx int
		}
		var closers, testers []prm
		paramIdx := func(fn *ssa.Function, v ssa.Value) int {
			for i, q := range fn.Params {
				if ssa.Value(q) == stripConv(v) {
					return i
				}
			}
			return -1
		}
		for _, fn := range p.srcFuncs(p.Main) {
			for _, b := range fn.Blocks {
				for _, in := range b.Instrs {
					switch x := in.(type) {
					case *ssa.Call:
						if bi, ok := x.Call.Value.(*ssa.Builtin); ok && bi.Name() == "close" && len(x.Call.Args) == 1 {
							if i := paramIdx(fn, x.Call.Args[0]); i >= 0 && isChanOf(fn.Params[i].Type(), isEmptyStruct) {
								closers = append(closers, prm{fn, i})
							}
						}
					case *ssa.Select:
						if !x.Blocking && len(x.States) == 1 && x.States[0].Dir == types.RecvOnly {
							if i := paramIdx(fn, x.States[0].Chan); i >= 0 && isChanOf(fn.Params[i].Type(), isEmptyStruct) &&
								fn.Signature.Results().Len() == 1 && isBoolType(fn.Signature.Results().At(0).Type()) {
								testers = append(testers, prm{fn, i})
							}
						}
					}
				}
			}
		}
		ro.ChanClosers, ro.ChanTesters = map[*ssa.Function]int{}, map[*ssa.Function]int{}
		for _, c := range closers {
			ro.ChanClosers[c.fn] = c.idx
		}
		for _, c := range testers {
			ro.ChanTesters[c.fn] = c.idx
		}
		if len(closers)+len(testers) > 0 {
			for _, fn := range p.srcFuncs(p.Main) {
				for _, b := range fn.Blocks {
					for _, in := range b.Instrs {
						call, ok := in.(*ssa.Call)
						if !ok || call.Call.StaticCallee() == nil {
							continue
						}
						cal := call.Call.StaticCallee()
						for _, c := range closers {
							if c.fn == cal && c.idx < len(call.Call.Args) && fieldOf(call.Call.Args[c.idx]) == ro.Done {
								ro.CloseFns = appendFn(ro.CloseFns, fn)
							}
						}
						for _, c := range testers {
							if c.fn == cal && c.idx < len(call.Call.Args) && fieldOf(call.Call.Args[c.idx]) == ro.Done &&
								fn.Signature.Results().Len() == 1 && isBoolType(fn.Signature.Results().At(0).Type()) {
								ro.IsClosed = appendFn(ro.IsClosed, fn)
							}
						}
					}
				}
			}
		}
	}
	// a function that closes done is not a closed-test, even if it contains the test inline
	var pureTests []*ssa.Function
	for _, f := range ro.IsClosed {
		if !containsFn(ro.CloseFns, f) {
			pureTests = append(pureTests, f)
		}
	}
	ro.IsClosed = pureTests
	// send wrappers
	ro.SendWrap = map[*ssa.Function][2]int{}
	for _, fn := range p.srcFuncs(p.Main) {
		if containsFn(ro.SendEvent, fn) || containsFn(ro.SendError, fn) || fn.Blocks == nil || len(naturalLoops(fn)) > 0 {
			continue
		}
		if fn.Signature.Results().Len() != 1 || !isBoolType(fn.Signature.Results().At(0).Type()) {
			continue
		}
		evIdx, erIdx, okW, nCalls := -1, -1, true, 0
		for _, b := range fn.Blocks {
			for _, in := range b.Instrs {
				switch x := in.(type) {
				case *ssa.Call:
					cal := x.Call.StaticCallee()
					if cal == nil || !(containsFn(ro.SendEvent, cal) || containsFn(ro.SendError, cal)) {
						okW = false
						continue
					}
					nCalls++
					arg := x.Call.Args[len(x.Call.Args)-1]
					prm, isP := arg.(*ssa.Parameter)
					if !isP {
						okW = false
						continue
					}
					for i, pp := range fn.Params {
						if pp == prm {
							if containsFn(ro.SendEvent, cal) {
								evIdx = i
							} else {
								erIdx = i
							}
						}
					}
				case *ssa.Store, *ssa.MapUpdate, *ssa.Send, *ssa.Select, *ssa.Go, *ssa.Defer:
					okW = false
				}
			}
		}
		if okW && nCalls >= 1 {
			ro.SendWrap[fn] = [2]int{evIdx, erIdx}
		}
	}
	e.NoExpand = map[*ssa.Function]bool{}
	for f := range ro.SendWrap {
		e.NoExpand[f] = true
	}
	for _, l := range [][]*ssa.Function{ro.SendEvent, ro.SendError, ro.IsClosed, ro.CloseFns} {
		for _, f := range l {
			e.NoExpand[f] = true
		}
	}
	for f := range ro.ChanTesters {
		e.NoExpand[f] = true // done.raised() stays the opaque closed-test, like isClosed()
	}
	// readers: go statements reachable from the constructor
	w := e.Walk(ro.Ctor, WalkOpts{NoCond: true})
	for _, g := range w.GoRoots {
		ro.Readers = appendFn(ro.Readers, g.Fn)
	}
	return ro, nil
}

func isBoolType(t types.Type) bool {
	b, ok := t.Underlying().(*types.Basic)
	return ok && b.Kind() == types.Bool
}

func appendFn(l []*ssa.Function, f *ssa.Function) []*ssa.Function {
	for _, x := range l {
		if x == f {
			return l
		}
	}
	return append(l, f)
}

func (ro *Roles) noteSend(fn *ssa.Function, ch ssa.Value, evSet, erSet map[*types.Var]bool) bool {
	f := fieldOf(ch)
	if f == nil {
		// by element type
		if c, ok := ch.Type().Underlying().(*types.Chan); ok {
			if types.Identical(c.Elem(), ro.Event) {
				ro.SendEvent = appendFn(ro.SendEvent, fn)
				return true
			}
			if isErrorType(c.Elem()) {
				ro.SendError = appendFn(ro.SendError, fn)
				return true
			}
		}
		return false
	}
	if evSet[f] {
		ro.SendEvent = appendFn(ro.SendEvent, fn)
		return true
	}
	if erSet[f] {
		ro.SendError = appendFn(ro.SendError, fn)
		return true
	}
	return false
}

// getterField: fn is a one-block method that returns a field of its receiver (possibly converted); that field.
func getterField(fn *ssa.Function) *types.Var {
	if fn == nil || len(fn.Blocks) != 1 || fn.Signature.Recv() == nil || len(fn.Params) != 1 {
		return nil
	}
	b := fn.Blocks[0]
	r, ok := b.Instrs[len(b.Instrs)-1].(*ssa.Return)
	if !ok || len(r.Results) != 1 {
		return nil
	}
	for _, in := range b.Instrs {
		switch in.(type) {
		case *ssa.FieldAddr, *ssa.UnOp, *ssa.ChangeType, *ssa.Convert, *ssa.Return, *ssa.DebugRef, *ssa.Field:
		default:
			return nil
		}
	}
	v := r.Results[0]
	for i := 0; i < 6; i++ {
		switch x := v.(type) {
		case *ssa.ChangeType:
			v = x.X
		case *ssa.Convert:
			v = x.X
		case *ssa.UnOp:
			v = x.X
		case *ssa.FieldAddr:
			if x.X != ssa.Value(fn.Params[0]) {
				// through an embedded struct: w.shared.done
				if fa2, ok := x.X.(*ssa.FieldAddr); !ok || fa2.X != ssa.Value(fn.Params[0]) {
					if ld, ok := x.X.(*ssa.UnOp); !ok || ld.X == nil {
						return nil
					}
				}
			}
			st := deref(x.X.Type()).Underlying().(*types.Struct)
			return st.Field(x.Field)
		default:
			return nil
		}
	}
	return nil
}

func (ro *Roles) isSendEvent(f *ssa.Function) bool {
	if w, ok := ro.SendWrap[f]; ok && w[0] >= 0 {
		return true
	}
	return containsFn(ro.SendEvent, f)
}
func (ro *Roles) isSendError(f *ssa.Function) bool {
	if w, ok := ro.SendWrap[f]; ok && w[1] >= 0 {
		return true
	}
	return containsFn(ro.SendError, f)
}

// eventArg / errorArg: the argument of a call of a send function (or send wrapper) that is sent as the event / the error.
func (ro *Roles) eventArg(call *ssa.Call) ssa.Value {
	cal := call.Call.StaticCallee()
	if w, ok := ro.SendWrap[cal]; ok {
		if w[0] >= 0 && w[0] < len(call.Call.Args) {
			return call.Call.Args[w[0]]
		}
		return nil
	}
	if containsFn(ro.SendEvent, cal) {
		return call.Call.Args[len(call.Call.Args)-1]
	}
	return nil
}
func (ro *Roles) errorArg(call *ssa.Call) ssa.Value {
	cal := call.Call.StaticCallee()
	if w, ok := ro.SendWrap[cal]; ok {
		if w[1] >= 0 && w[1] < len(call.Call.Args) {
			return call.Call.Args[w[1]]
		}
		return nil
	}
	if containsFn(ro.SendError, cal) {
		return call.Call.Args[len(call.Call.Args)-1]
	}
	return nil
}
func (ro *Roles) isIsClosed(f *ssa.Function) bool { return containsFn(ro.IsClosed, f) }

// closedLit: is l a test of "the done channel is closed"? Either a call of an isClosed function, or the inlined form:
// the case index of a non-blocking select whose only case receives from done. saysClosed: the literal holds iff closed.
func (ro *Roles) closedLit(l Lit) (isTest, saysClosed bool) {
	if l.A == nil {
		return false, false
	}
	if l.A.Kind == AkPred && l.A.Callee != nil && ro.isIsClosed(l.A.Callee) {
		return true, !l.Neg
	}
	if l.A.Kind == AkPred && l.A.Callee != nil && l.A.Call != nil && l.A.Ctx != nil {
		if i, ok := ro.ChanTesters[l.A.Callee]; ok && i < len(l.A.Call.Call.Args) && l.A.Ctx.fieldOfValue(l.A.Call.Call.Args[i]) == ro.Done {
			return true, !l.Neg // done.raised(): the poll of a channel-typed receiver, handed the done field
		}
	}
	if l.A.Kind == AkCmp && l.A.Op == "==" && l.A.K == "c:0" && l.A.Ctx != nil {
		if b, ok := l.A.V.(*ssa.BinOp); ok {
			for _, o := range []ssa.Value{b.X, b.Y} {
				if ex, ok := o.(*ssa.Extract); ok && ex.Index == 0 {
					if sel, ok := ex.Tuple.(*ssa.Select); ok && !sel.Blocking && len(sel.States) == 1 &&
						sel.States[0].Dir == types.RecvOnly && l.A.Ctx.fieldOfValue(sel.States[0].Chan) == ro.Done {
						return true, !l.Neg
					}
				}
			}
		}
	}
	return false, false
}

func containsFn(l []*ssa.Function, f *ssa.Function) bool {
	for _, x := range l {
		if x == f {
			return true
		}
	}
	return false
}

// apiRoots returns the API methods in a stable order.
func (ro *Roles) apiRoots() []*ssa.Function {
	var names []string
	for n := range ro.API {
		names = append(names, n)
	}
	sort.Strings(names)
	var out []*ssa.Function
	for _, n := range names {
		out = append(out, ro.API[n])
	}
	return out
}

// ---------------------------------------------------------------------------
// E-F: production-configuration folding.

func (e *Engine) computeFold() {
	p := e.P
	type info struct {
		stores   []*ssa.Store
		escapes  bool
		initVal  *ssa.Const
		hasOther bool
	}
	gi := map[*ssa.Global]*info{}
	for _, m := range p.Main.Members {
		if g, ok := m.(*ssa.Global); ok && !strings.HasPrefix(g.Name(), "zzCtl") {
			if b, ok := deref(g.Type()).Underlying().(*types.Basic); ok && b.Info()&(types.IsBoolean|types.IsInteger) != 0 {
				gi[g] = &info{}
			}
		}
	}
	for f := range p.All {
		if !p.inModule(f) || isCtl(f) {
			continue
		}
		for _, b := range f.Blocks {
			for _, in := range b.Instrs {
				for _, op := range in.Operands(nil) {
					if op == nil || *op == nil {
						continue
					}
					g, ok := (*op).(*ssa.Global)
					if !ok || gi[g] == nil {
						continue
					}
					switch x := in.(type) {
					case *ssa.UnOp:
						if x.Op != token.MUL {
							gi[g].escapes = true
						}
					case *ssa.Store:
						if x.Addr == ssa.Value(g) {
							gi[g].stores = append(gi[g].stores, x)
						} else {
							gi[g].escapes = true
						}
					case *ssa.DebugRef:
					default:
						gi[g].escapes = true
					}
				}
			}
		}
	}
	var names []string
	byName := map[string]*ssa.Global{}
	for g := range gi {
		names = append(names, g.Name())
		byName[g.Name()] = g
	}
	sort.Strings(names)
	for _, n := range names {
		g := byName[n]
		inf := gi[g]
		if inf.escapes {
			continue
		}
		var val *ssa.Const
		okk := true
		for _, st := range inf.stores {
			k, isK := st.Val.(*ssa.Const)
			if !isK || st.Parent().Name() != "init" || st.Parent().Pkg != p.Main {
				okk = false
				break
			}
			if val != nil {
				okk = false
				break
			}
			val = k
		}
		if !okk {
			continue
		}
		if val == nil {
			// zero value
			t := deref(g.Type())
			if isBoolType(t) {
				val = ssa.NewConst(constant.MakeBool(false), t)
			} else {
				val = ssa.NewConst(constant.MakeInt64(0), t)
			}
		}
		e.Fold[g] = val
		e.FoldFacts = append(e.FoldFacts, fmt.Sprintf("package variable %s is constant %s in non-test code (one initialising store, no other store, address never taken)", g.Name(), val.Value))
	}
}

package main

import (
	"go/types"
	"strings"

	"golang.org/x/tools/go/ssa"
)

func init() {
	register(&property{
		Meta: propMeta{
			ID:    "C02",
			Title: "No phantom events: everything reported really happened to a watched path",
			Explanation: "Guard and origin rules over the SSA of the inotify reader. Decided: " +
				"(1) every path to the translator call carries, in every conjunct of its reaching condition, 'watch != nil', 'not IN_IGNORED' and 'not IN_UNMOUNT' for this record; the extracted translator table (C15) has no row for IN_IGNORED, IN_UNMOUNT, IN_Q_OVERFLOW or IN_ISDIR; " +
				"(2) the channel send is control-dependent on Op != 0; " +
				"(3) every event-send call reachable in production configuration is the one in the decode loop, its argument is this iteration's handler result, and the Name operand of the translator is watch.path or watch.path+\"/\"+entry for the watch looked up by this record's Wd; " +
				"(4) Remove deletes the wd-table entry and the handler looks the wd up under the same mutex, the lookup and its nil test preceding every other effect of the handler; " +
				"(5) re-adding a listed path whose descriptor changed releases the old entry and kernel watch on every path (otherwise changes to the old file keep being reported under a name that no longer denotes it). " +
				"Not decided: that the change really happened (kernel); events the kernel queued before Remove returned.",
			Rule:        "obligations per translator call, per event-send site, per name origin edge, per handler effect; non-trivial = construct exists",
			Assumptions: []string{"go/types + go/ssa", "C15 table extraction", "production folding (E-F) re-verified each run"},
			MinObl:      10,
		},
		Configs: tiered(concat(linuxQuick, []Config{{"freebsd", "amd64"}}), concat(linuxAll, kqueueQuick)),
		Run:     runC02,
	})
}

func runC02(p *Program, e *Engine, r *Result, tier string) {
	a := newAn(p, e, r, true)
	if a == nil {
		return
	}
	if strings.Contains(strings.Join(r.Files, " "), "backend_kqueue.go") {
		// kqueue backend (cross-compiled): a Create for an entry that existed when its directory was added is a phantom.
		// The one structural clause: the decision to list an already watched directory on Add (and mark its entries
		// seen) reads the watch's previous flags, not the ones this Add has just stored (= C18.10).
		kf := kqFind(a)
		if kf == nil {
			return
		}
		c18RescanDecision(a, kf, "C02.7")
		return
	}
	df := decodeFacts(a)
	if df == nil {
		return
	}
	ro := a.Ro
	_, hv, hctx := handlerVisits(a, df)
	if hctx == nil {
		a.R.fail("handler %s is not inlined at its call site", shortFn(df.Handler))
		return
	}
	// (1) translator call guards
	trs := findTranslators(a)
	if len(trs) != 1 || len(trs[0].probs) > 0 {
		a.R.fail("anchor unresolved: exactly one tabular translator expected (found %d)", len(trs))
		return
	}
	tr := trs[0]
	tr.table, tr.spec, tr.probs = buildTable(tr.rows, paramSubject(tr.fn))
	var trCall *Visit
	for _, v := range hv {
		if call, ok := v.Instr.(*ssa.Call); ok && v.Ctx == hctx && v.Ctx.calleeOf(&call.Call) == tr.fn {
			trCall = v
		}
	}
	if trCall == nil {
		a.R.fail("anchor unresolved: call of the translator %s at the top level of the handler", shortFn(tr.fn))
		return
	}
	type need struct {
		name string
		f    func(Lit) bool
	}
	ign, _ := unixConst(a, "IN_IGNORED")
	unm, _ := unixConst(a, "IN_UNMOUNT")
	needs := []need{
		{"watch != nil", func(l Lit) bool { return l.A.Kind == AkNil && l.Neg && lookupInTable(l.A, ro.Tables) }},
		{"not IN_IGNORED", func(l Lit) bool {
			return l.Neg && (l.A.Kind == AkBit || l.A.Kind == AkAny) && l.A.Bits&ign != 0 && strings.HasSuffix(l.A.Subj, ".Mask")
		}},
		{"not IN_UNMOUNT", func(l Lit) bool {
			return l.Neg && (l.A.Kind == AkBit || l.A.Kind == AkAny) && l.A.Bits&unm != 0 && strings.HasSuffix(l.A.Subj, ".Mask")
		}},
	}
	for _, n := range needs {
		ok, bad := trCall.Cond.everyConj(func(c Conj) bool { return c.has(n.f) })
		wit := "present in all " + sprintf("%d", len(trCall.Cond)) + " conjunct(s) of the reaching condition"
		if !ok {
			wit = "the translator is reached without it under " + stripIDs(bad.String())
		}
		a.R.ob("C02.1", "translate-guard("+n.name+")", "the notification is translated into an event only when '"+n.name+"' holds for this record", a.P.instrPos(trCall.Instr), ok, wit)
	}
	inN, _ := nativeNames(a, "IN_")
	opN, _ := opNames(a)
	var hk []string
	for _, name := range []string{"IN_IGNORED", "IN_UNMOUNT", "IN_Q_OVERFLOW", "IN_ISDIR"} {
		if k, ok := unixConst(a, name); ok && tr.table[k] != 0 {
			hk = append(hk, sprintf("%s -> %s", maskName(inN)(k), maskName(opN)(tr.table[k])))
		}
	}
	a.R.ob("C02.1", "housekeeping-bits-inert", "kernel housekeeping bits (IN_IGNORED, IN_UNMOUNT, IN_Q_OVERFLOW, IN_ISDIR) translate to no operation", a.P.pos(tr.fn.Pos()), len(hk) == 0 && len(tr.probs) == 0,
		strings.Join(append(hk, tr.probs...), "; "))

	// (2) send control-dependent on Op != 0  (shared with C01.2)
	c01Send(a, "C02.2")

	// (3) origins
	c02Origins(a, df, tr, trCall, hctx)
	// the value sent in the decode loop is the event returned by THIS iteration's handler call, on every path through the
	// body (not a variable that may still hold an earlier record's event) - shared with C01.1
	c01Loop(a, df, "C02.3")

	// (4) Remove => silence
	c02RemoveSilence(a, df, hv, hctx)
	// (5) a listed path that now names another file does not keep reporting the old file under that name
	if tf := findTables(a); tf != nil {
		c04Replace(a, tf, ro.API["AddWith"], "C02.5")
		// Remove takes out both entries of a watch, always together (a surviving wd entry keeps delivering events for a
		// path Remove said it removed) - shared with C04.3
		if rm := ro.API["Remove"]; rm != nil {
			pairTables(a, tf, rm, "C02.4")
		}
		// (6) a watch whose file was renamed away is ended, so that later changes of that file cannot be reported under
		// the name it no longer has (shared with C09.2)
		if _, hv2, hctx2, entry, watchLit, maskSubj := handlerFrame(a, df, tf); hctx2 != nil {
			c09MoveSelf(a, df, tf, hv2, hctx2, entry, *watchLit, watchLit.A.Subj, maskSubj, "C02.6")
		}
	}
}

func c02Origins(a *An, df *DecodeFacts, tr *extracted, trCall *Visit, hctx *Ctx) {
	ro := a.Ro
	// every event-send call in production configuration
	type site struct {
		pos, chain string
		ok         bool
		why        string
	}
	n := 0
	addRoot := func(root *ssa.Function, isReader bool) {
		w := a.walk(root)
		for _, v := range w.Visits {
			call, ok := v.Instr.(*ssa.Call)
			if !ok {
				continue
			}
			cal := v.Ctx.calleeOf(&call.Call)
			if cal == nil || !ro.isSendEvent(cal) {
				continue
			}
			n++
			ok2 := isReader && v.Ctx.Fn == df.LoopFn && v.Ctx.Depth == len(df.Chain) && len(df.SendCalls) == 1 && call == df.SendCalls[0]
			why := "the decode loop's send of the handler result"
			arg := ro.eventArg(call)
			if !ok2 && arg != nil {
				// inside a send wrapper: judged at the wrapper's call site; and a zero Event is never put on the channel
				// (the send function skips Op == 0, C02.2)
				if _, inWrap := ro.SendWrap[v.Ctx.Fn]; inWrap && v.Ctx.Parent != nil {
					ok2, why = true, "inside the send wrapper "+shortFn(v.Ctx.Fn)+" (its call sites are judged)"
				} else if zeroEvent(v.Ctx, arg) {
					ok2, why = true, "a zero Event (nothing is delivered for Op == 0)"
				}
			}
			if !ok2 && arg != nil {
				why = sprintf("event-send reached via %s with argument %s", v.Ctx.chain(), stripIDs(v.Ctx.path(arg)))
			}
			a.R.ob("C02.3", "event-send@"+shortFn(call.Parent()), "events are sent only from the decode loop, and only the handler's result for the record being decoded", a.P.instrPos(call), ok2, why)
		}
	}
	addRoot(df.Reader, true)
	for _, m := range ro.apiRoots() {
		addRoot(m, false)
	}
	if n == 0 {
		a.R.fail("no event-send call reachable (vacuous)")
	}
	// Name operand of the translator
	call := trCall.Instr.(*ssa.Call)
	var nameArg ssa.Value
	for i, p := range tr.fn.Params {
		if isString(p.Type()) && i < len(call.Call.Args) {
			nameArg = call.Call.Args[i]
			break
		}
	}
	if nameArg == nil {
		a.R.fail("anchor unresolved: string (name) operand of the translator call")
		return
	}
	// sources of the name under the condition in which the translator is reached (a helper returning (watch, name) yields
	// "" together with a nil watch; that source is not live here)
	nameEdges := valueEdges(trCall.Ctx, nameArg, trCall.Cond)
	_ = hctx
	wdTbl, pathFld := "wd", "path"
	if tf := findTables(a); tf != nil {
		wdTbl = tf.wdTable.Name()
		_, pathFld = tf.watchFields()
	}
	for _, ne := range nameEdges {
		p := stripIDs(ne.Ctx.path(ne.V))
		// expected: <wdTable>[<record>.Wd].path  or that + "/" + trimmed bytes
		okp := false
		form := ""
		base, rest := p, ""
		if strings.HasPrefix(p, "(") && strings.HasSuffix(p, ")") {
			inner := p[1 : len(p)-1]
			if i := strings.Index(inner, "+c:\"/\")+"); i > 0 && strings.HasPrefix(inner, "(") {
				base, rest = inner[1:i], inner[i+len("+c:\"/\")+"):]
			} else if i := strings.Index(inner, "+(c:\"/\"+"); i > 0 {
				base, rest = inner[:i], inner[i+len("+(c:\"/\"+"):]
			}
		}
		if strings.HasSuffix(base, ".Wd]."+pathFld) && strings.Contains(base, "."+wdTbl+"[") && strings.HasPrefix(base, "recv.") {
			if rest == "" {
				okp, form = true, "watch.path"
			} else {
				okp, form = true, "watch.path + \"/\" + entry"
			}
		}
		a.R.ob("C02.3", "name-origin("+form+")", "the event name is the path of the watch looked up by this record's Wd, optionally followed by \"/\" and the entry name", a.P.instrPos(trCall.Instr), okp,
			"name operand: "+tail(p, 200))
	}
}

func c02RemoveSilence(a *An, df *DecodeFacts, hv []*Visit, hctx *Ctx) {
	ro := a.Ro
	// the wd table: the table whose lookup keyed by the record's Wd is nil-tested in the handler
	var lookup *Visit
	var wdTable *types.Var
	for _, v := range hv {
		lk, ok := v.Instr.(*ssa.Lookup)
		if !ok {
			continue
		}
		f := v.Ctx.fieldOfValue(lk.X)
		if f == nil || !containsVar(ro.Tables, f) {
			continue
		}
		if strings.HasSuffix(stripIDs(v.Ctx.path(lk.Index)), ".Wd") {
			lookup = v
			wdTable = f
			break
		}
	}
	if lookup == nil {
		a.R.fail("anchor unresolved: handler's table lookup keyed by the record's Wd")
		return
	}
	// handler: every call/store/map effect other than lock handling and the lookup itself is under !nil(lookup)
	var early []string
	for _, v := range hv {
		if v.Seq <= lookup.Seq {
			continue
		}
		effect := false
		switch x := v.Instr.(type) {
		case *ssa.MapUpdate, *ssa.Store, *ssa.Send:
			effect = true
			if st, ok := x.(*ssa.Store); ok && localAddr(st.Addr) {
				effect = false
			}
		case *ssa.Call:
			if _, isDel := isBuiltinCall(x, "delete"); isDel {
				effect = true
			} else if cal := v.Ctx.calleeOf(&x.Call); cal != nil && !a.E.isPure(cal) {
				if acq, rel := lockOp(cal); !acq && !rel {
					effect = true
				}
			}
		}
		if !effect || v.InDefer {
			continue
		}
		guarded, _ := v.Cond.everyConj(func(c Conj) bool {
			return c.has(func(l Lit) bool { return l.A.Kind == AkNil && l.Neg && lookupInTable(l.A, []*types.Var{wdTable}) })
		})
		if !guarded {
			early = append(early, a.P.instrPos(v.Instr)+" "+v.Instr.String())
		}
	}
	a.R.ob("C02.4", "lookup-first", "the handler resolves the record's wd and tests it for nil before any other effect (a notification for a removed watch is skipped entirely)",
		a.P.instrPos(lookup.Instr), len(early) == 0, sprintf("effects not guarded by the nil test: %s", fmtList(uniq(early))))
	// same lock on both sides
	hl := lookup.Must
	rm := ro.API["Remove"]
	w := a.walk(rm)
	nDel := 0
	okLock := true
	var dl []string
	for _, v := range w.Visits {
		args, ok := isBuiltinCall(v.Instr, "delete")
		if !ok || v.Ctx.fieldOfValue(args[0]) != wdTable {
			continue
		}
		nDel++
		common := intersect(hl, v.Must)
		if len(common) == 0 {
			okLock = false
		}
		dl = append(dl, sprintf("%s under %s", a.P.instrPos(v.Instr), v.Must))
	}
	a.R.ob("C02.4", "remove-deletes-wd-under-handler-lock", "Remove deletes the wd-table entry under the mutex the handler holds for its lookup, so a notification processed after Remove returned finds no watch",
		a.P.pos(rm.Pos()), nDel >= 1 && okLock, sprintf("handler lookup under %s; Remove deletes: %s", hl, fmtList(uniq(dl))))
}

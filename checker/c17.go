package main

import (
	"fmt"
	"go/token"
	"go/types"
	"os"
	"strings"

	"golang.org/x/tools/go/ssa"
)

func init() {
	register(&property{
		Meta: propMeta{
			ID:    "C17",
			Title: "kqueue: watch descriptors are always closed again; only user paths are listed",
			Explanation: "Descriptor pairing and typestate rules over the SSA of the kqueue backend, cross-compiled for freebsd and darwin (thorough: all five kqueue systems, every architecture). This code cannot be executed in the sandbox; the rules are the only machinery that looks at it. Decided: " +
				"(1) open => stored or closed: from the successful open(2) in the add path, every return that can follow it has either recorded the descriptor in the tables or closed it (error exits included), or the open itself failed; " +
				"(2) table delete => close: every delete from the descriptor table is matched, in the same calling context and under a condition it implies, by close(2) on that descriptor; removing a directory's watch goes on to remove the watches of its entries; the reader calls the removal for an event with Rename or Remove; " +
				"(3) Close releases: with isClosed() folded to true (done is never re-opened) a close(2) of a watch descriptor is still reachable from Close for every listed path, Close closes the pipe end that wakes the reader, and the reader's deferred function closes the kqueue descriptor and its pipe end; " +
				"(4) WatchList returns keys of the user-watch table only; that table is inserted only by AddWith after a successful add, and the inserted key and the deleted key pass through the same normaliser (filepath.Clean). " +
				"Not decided: real kevent behaviour; descriptor counts; the schedule in which the reader exits (and closes the kqueue descriptor) before Close has removed every watch, which makes EV_DELETE fail and that watch's descriptor stay open (error exits are exempt).",
			Rule:        "one obligation per return after open, per descriptor-table delete and root, per Close/reader release fact, per user-table access",
			Assumptions: []string{"go/types + go/ssa", "close(2) on a descriptor removes its kevents", "typestate: done is closed once and never re-opened"},
			MinObl:      10,
		},
		Configs: tiered(kqueueQuick, kqueueAll),
		Run:     runC17,
	})
}

type kqFacts struct {
	fdTable   *types.Var // map[int]watch
	userTable *types.Var // byUser
	pathTable *types.Var
	removeFn  *ssa.Function          // function containing close(2) of a watch descriptor (for messages)
	removal   map[*ssa.Function]bool // functions that reach both the descriptor-table delete and close(2) of a watch descriptor
}

// inRemoval: ctx lies inside (an inlined call of) a removal function.
func (kf *kqFacts) inRemoval(c *Ctx) bool {
	for x := c; x != nil && x.Parent != nil; x = x.Parent {
		if kf.removal[x.Fn] {
			return true
		}
	}
	return false
}

func computeRemoval(a *An, kf *kqFacts) {
	kf.removal = map[*ssa.Function]bool{}
	for _, fn := range a.P.srcFuncs(a.P.Main) {
		if fn.Signature.Recv() == nil || deref(fn.Signature.Recv().Type()) != types.Type(a.Ro.Backend) {
			continue
		}
		w := a.E.Walk(fn, WalkOpts{NoCond: true})
		del, cl := false, false
		for _, v := range w.Visits {
			if args, ok := isBuiltinCall(v.Instr, "delete"); ok && v.Ctx.fieldOfValue(args[0]) == kf.fdTable {
				del = true
			}
		}
		for _, c := range unixCloseVisits(w) {
			if strings.HasSuffix(stripIDs(c.Ctx.path(c.Instr.(*ssa.Call).Call.Args[0])), ".wd") {
				cl = true
			}
		}
		// a removal function only removes: a function that also delivers events (the reader's per-event handler, the
		// directory re-scan) is a caller of removal functions, not one of them
		snd := false
		for _, v := range w.Visits {
			if cal := visitCallee(v); cal != nil && a.Ro.isSendEvent(cal) {
				snd = true
			}
		}
		if del && cl && !snd && !containsFn(a.Ro.Readers, fn) {
			kf.removal[fn] = true
		}
	}
}

func kqFind(a *An) *kqFacts {
	kf := &kqFacts{}
	for _, t := range a.Ro.Tables {
		m := t.Type().Underlying().(*types.Map)
		if b, ok := m.Key().Underlying().(*types.Basic); ok && b.Info()&types.IsInteger != 0 {
			if _, isStruct := m.Elem().Underlying().(*types.Struct); isStruct {
				if n, ok := m.Elem().(*types.Named); ok && n.Obj().Pkg() == a.P.MainTy {
					kf.fdTable = t
				}
			}
		}
		if isString(m.Key()) {
			if b, ok := m.Elem().Underlying().(*types.Basic); ok && b.Info()&types.IsInteger != 0 {
				kf.pathTable = t
			}
		}
	}
	// user table: the string-keyed set that WatchList ranges over
	if wl := a.Ro.API["WatchList"]; wl != nil {
		for _, v := range a.walk(wl).Visits {
			if rg, ok := v.Instr.(*ssa.Range); ok {
				if f := v.Ctx.fieldOfValue(rg.X); f != nil && containsVar(a.Ro.Tables, f) {
					kf.userTable = f
				}
			}
		}
	}
	if kf.fdTable == nil || kf.userTable == nil || kf.pathTable == nil {
		a.R.fail("anchor unresolved: kqueue tables (descriptor table %v, path table %v, user table %v)", kf.fdTable != nil, kf.pathTable != nil, kf.userTable != nil)
		return nil
	}
	return kf
}

func unixCloseVisits(w *Walker) []*Visit {
	var out []*Visit
	for _, v := range w.Visits {
		if call, ok := v.Instr.(*ssa.Call); ok {
			if cal := v.Ctx.calleeOf(&call.Call); cal != nil && (fullName(cal) == "golang.org/x/sys/unix.Close" || fullName(cal) == "syscall.Close") {
				out = append(out, v)
			}
		}
	}
	return out
}

func runC17(p *Program, e *Engine, r *Result, tier string) {
	a := newAn(p, e, r, true)
	if a == nil {
		return
	}
	kf := kqFind(a)
	if kf == nil {
		return
	}
	computeRemoval(a, kf)
	c17Open(a, kf)
	c17Pairing(a, kf)
	c17Close(a, kf)
	c17WatchList(a, kf)
}

func reachableFrom(from, to *ssa.BasicBlock) bool {
	seen := map[*ssa.BasicBlock]bool{}
	stack := []*ssa.BasicBlock{from}
	for len(stack) > 0 {
		b := stack[len(stack)-1]
		stack = stack[:len(stack)-1]
		if b == to {
			return true
		}
		if seen[b] {
			continue
		}
		seen[b] = true
		stack = append(stack, b.Succs...)
	}
	return false
}

func c17Open(a *An, kf *kqFacts) {
	aw := a.Ro.API["AddWith"]
	w := a.walk(aw)
	var opens []*Visit
	for _, v := range w.Visits {
		if call, ok := v.Instr.(*ssa.Call); ok {
			if cal := v.Ctx.calleeOf(&call.Call); cal != nil && fullName(cal) == "golang.org/x/sys/unix.Open" {
				opens = append(opens, v)
			}
		}
	}
	// the same open site is visited once per calling context (user add, internal adds); check each
	if len(opens) == 0 {
		a.R.fail("anchor unresolved: open(2) on the add path")
		return
	}
	liftedOf := map[*Visit]*Visit{} // open(2) inside a wrapper -> the wrapper's call site
	// an open(2) wrapper (a function whose only effect is the open, possibly retried, and whose every return hands back
	// the descriptor and the error of an open of its own) is transparent: its call site is the open site
	{
		var lifted []*Visit
		dup := map[*Visit]bool{}
		for _, O := range opens {
			raw := O
			for depth := 0; depth < 3; depth++ {
				up := liftOpenWrapper(a, w, O)
				if up == nil {
					break
				}
				O = up
			}
			if O != raw {
				liftedOf[raw] = O
			}
			if !dup[O] {
				dup[O] = true
				lifted = append(lifted, O)
			}
		}
		opens = lifted
	}
	seen := map[string]bool{}
	for _, O := range opens {
		call := O.Instr.(*ssa.Call)
		op := O.Ctx.path(call)
		// where the descriptor is kept: the store of Open#0
		fdPath := ""
		for _, v := range w.Visits {
			if st, ok := v.Instr.(*ssa.Store); ok && v.Ctx == O.Ctx {
				if ex, ok := stripConv(st.Val).(*ssa.Extract); ok && ex.Tuple == ssa.Value(call) && ex.Index == 0 {
					fdPath = stripIDs(strings.TrimPrefix(v.Ctx.path(st.Addr), "&"))
				}
			}
		}
		if fdPath == "" {
			fdPath = stripIDs(op + "#0")
		}
		failed := DNF{Conj{}}
		failed = DNF{Conj{"x": Lit{A: &Atom{Kind: AkNil, Subj: op + "#1"}, Neg: true}}}
		failed[0] = Conj{(&Atom{Kind: AkNil, Subj: op + "#1"}).ID(): Lit{A: &Atom{Kind: AkNil, Subj: op + "#1"}, Neg: true}}
		// The descriptor is owned by the function that opened it, or - when that function returns it, alone or inside
		// the watch record - by its caller, and so on upwards. In the opening function the descriptor is recognised by
		// its access path, further up by the record's field name.
		fdField := ""
		if i := strings.LastIndex(fdPath, "."); i >= 0 && !strings.Contains(fdPath[i:], "(") && !strings.Contains(fdPath[i:], "[") {
			fdField = fdPath[i+1:]
		}
		carries := func(frame *Ctx, top bool, v ssa.Value) bool {
			p := stripIDs(frame.path(v))
			if top {
				return p == fdPath || (fdField != "" && strings.TrimSuffix(fdPath, "."+fdField) == p)
			}
			if st, ok := v.Type().Underlying().(*types.Struct); ok && fdField != "" {
				for i := 0; i < st.NumFields(); i++ {
					if st.Field(i).Name() == fdField {
						return true
					}
				}
			}
			return false
		}
		var handled DNF
		frame, top := O.Ctx, true
		var from ssa.Instruction = call
		for depth := 0; frame != nil && depth < 4; depth++ {
			match := func(p string) bool {
				if top {
					return p == fdPath
				}
				return fdField != "" && strings.HasSuffix(p, "."+fdField)
			}
			// effects that take care of the descriptor in this frame
			for _, v := range w.Visits {
				callV, ok := v.Instr.(*ssa.Call)
				if !ok || v.Ctx != frame {
					continue
				}
				cal := v.Ctx.calleeOf(&callV.Call)
				if cal == nil {
					continue
				}
				if fullName(cal) == "golang.org/x/sys/unix.Close" && match(stripIDs(v.Ctx.path(callV.Call.Args[0]))) {
					handled = handled.or(v.Cond)
				}
				if a.P.inMain(cal) {
					for _, arg := range callV.Call.Args {
						ap := stripIDs(v.Ctx.path(arg))
						if (match(ap) || !top && carries(frame, false, arg)) && storesInto(a, w, v, kf.fdTable) {
							handled = handled.or(v.Cond) // receives the descriptor (or the record) and stores it in the table
						}
						if match(ap) && closesParam(a, w, v) {
							handled = handled.or(closeCondIn(w, v)) // a helper that closes the descriptor it is given
						}
					}
				}
			}
			handsOver := false
			for _, v := range w.Visits {
				r, ok := v.Instr.(*ssa.Return)
				if !ok || v.Ctx != frame {
					continue
				}
				if !reachableFrom(from.Block(), r.Block()) {
					continue
				}
				T := a.safeAnd(v.Cond, O.Cond)
				if T.isFalse() {
					continue
				}
				over := false
				if frame.Parent != nil {
					for _, res := range r.Results {
						if carries(frame, top, res) {
							over = true
						}
					}
				}
				key := sprintf("open:return@%s(%s)", shortFn(r.Parent()), tail(stripCallArgs(stripIDs(returnSig(v))), 40))
				if over {
					// the caller takes over; its returns are checked in the next round. An error return that still carries
					// the record is not a hand-over: require success of this call in the caller instead (below).
					handsOver = true
				}
				goal := handled.or(failed)
				// an error variable that can only hold the error result of an open(2) of this same descriptor cell (a retry
				// loop: `fd, err = open(); for err == EINTR { fd, err = open() }; if err != nil { return }`): non-nil
				// means the descriptor cell holds no descriptor
				for _, cj := range v.Cond {
					for _, l := range cj {
						if l.A.Kind != AkNil || !l.Neg || l.A.V == nil || l.A.Ctx == nil {
							continue
						}
						srcs := valueEdges(l.A.Ctx, l.A.V, dnfTrue())
						all := len(srcs) > 0
						for _, e := range srcs {
							ex, ok := e.V.(*ssa.Extract)
							isOpenErr := false
							if ok && ex.Index == 1 {
								for _, O2 := range opens {
									if ex.Tuple == ssa.Value(O2.Instr.(*ssa.Call)) && e.Ctx == O2.Ctx && sameFdCell(w, O2, fdPath) {
										isOpenErr = true
									}
								}
								for raw, up := range liftedOf {
									if up == O && ex.Tuple == ssa.Value(raw.Instr.(*ssa.Call)) && e.Ctx == raw.Ctx {
										isOpenErr = true // the error of the open inside the wrapper whose call site this is
									}
								}
							}
							if !isOpenErr {
								all = false
							}
						}
						if all {
							goal = goal.or(DNF{Conj{l.A.ID(): l}})
						}
					}
				}
				h, ctr, err := implies(T, goal)
				if err != nil {
					a.R.fail("%v", err)
				}
				if over && !h {
					continue // ownership moves to the caller on this path
				}
				if seen[key] && h {
					continue
				}
				seen[key] = true
				wit := "the descriptor was stored in the table or closed on every path to this return"
				if !h {
					wit = "the descriptor kept in " + fdPath + " is neither stored nor closed when " + stripIDs(ctr)
				}
				a.R.ob("C17.1", key, "after a successful open(2) on the add path every return has recorded the descriptor, closed it, or handed it to its caller", a.P.instrPos(r), h, wit)
			}
			if !handsOver || frame.Parent == nil {
				break
			}
			site, ok := frame.Site.(*ssa.Call)
			if !ok {
				break
			}
			from = site
			frame, top = frame.Parent, false
		}
	}
}

// afterSuccessfulAdd: v (somewhere below root) is reached only through the nil branch of a test of the error result of a
// root-level call whose callee reaches open(2).
func afterSuccessfulAdd(a *An, root *ssa.Function, v *Visit) bool {
	// at every level of the calling chain: the instruction that leads to v, and the tests that dominate it
	var at ssa.Instruction = v.Instr
	for c := v.Ctx; c != nil && at != nil; at, c = c.Site, c.Parent {
		if guardedByAddSuccess(a, at) {
			return true
		}
	}
	return false
}

func guardedByAddSuccess(a *An, at ssa.Instruction) bool {
	reachesOpen := func(fn *ssa.Function) bool {
		if fn == nil || !a.P.inMain(fn) {
			return false
		}
		for _, u := range a.E.Walk(fn, WalkOpts{NoCond: true}).Visits {
			if cal := visitCallee(u); cal != nil && fullName(cal) == "golang.org/x/sys/unix.Open" {
				return true
			}
		}
		return false
	}
	for b := at.Block(); b != nil; b = b.Idom() {
		p := b.Idom()
		if p == nil || len(p.Instrs) == 0 {
			continue
		}
		iff, ok := p.Instrs[len(p.Instrs)-1].(*ssa.If)
		if !ok {
			continue
		}
		bin, ok := iff.Cond.(*ssa.BinOp)
		if !ok || (bin.Op != token.EQL && bin.Op != token.NEQ) {
			continue
		}
		var subj ssa.Value
		switch {
		case isNilConst(bin.Y):
			subj = bin.X
		case isNilConst(bin.X):
			subj = bin.Y
		default:
			continue
		}
		var call *ssa.Call
		switch x := subj.(type) {
		case *ssa.Call:
			call = x
		case *ssa.Extract:
			call, _ = x.Tuple.(*ssa.Call)
		}
		if call == nil || !isErrorType(subj.Type()) || !reachesOpen(call.Call.StaticCallee()) {
			continue
		}
		// which successor of p is the nil branch, and does it dominate b?
		nilIdx := 0
		if bin.Op == token.NEQ {
			nilIdx = 1
		}
		if s := p.Succs[nilIdx]; s == b || s.Dominates(b) {
			if other := p.Succs[1-nilIdx]; other != b && !other.Dominates(b) {
				return true
			}
		}
	}
	return false
}

// sameFdCell: the descriptor result of the open(2) visited at O is stored into the cell named fdPath.
func sameFdCell(w *Walker, O *Visit, fdPath string) bool {
	call := O.Instr.(*ssa.Call)
	for _, v := range w.Visits {
		if st, ok := v.Instr.(*ssa.Store); ok && v.Ctx == O.Ctx {
			if ex, ok := stripConv(st.Val).(*ssa.Extract); ok && ex.Tuple == ssa.Value(call) && ex.Index == 0 {
				if stripIDs(strings.TrimPrefix(v.Ctx.path(st.Addr), "&")) == fdPath {
					return true
				}
			}
		}
	}
	return false
}

// closesParam: the inlined package-local call at v closes (unix.Close) one of its own parameters.
func closesParam(a *An, w *Walker, v *Visit) bool { return !closeCondIn(w, v).isFalse() }

// closeCondIn: the condition under which the callee inlined at v closes a descriptor it received as a parameter.
func closeCondIn(w *Walker, v *Visit) DNF {
	d := dnfFalse()
	for _, u := range w.Visits {
		if u.Seq <= v.Seq || u.Ctx.Parent != v.Ctx || u.Ctx.Site != v.Instr {
			continue
		}
		c2, ok := u.Instr.(*ssa.Call)
		if !ok {
			continue
		}
		if cal := u.Ctx.calleeOf(&c2.Call); cal != nil && fullName(cal) == "golang.org/x/sys/unix.Close" {
			if _, isParam := stripConv(c2.Call.Args[0]).(*ssa.Parameter); isParam {
				d = d.or(u.Cond)
			}
		}
	}
	return d
}

func (a *An) safeAnd(x, y DNF) (r DNF) {
	defer func() {
		if e := recover(); e != nil {
			a.R.fail("condition product overflow")
			r = x
		}
	}()
	return x.and(y)
}

func returnSig(v *Visit) string {
	r := v.Instr.(*ssa.Return)
	var parts []string
	for _, x := range r.Results {
		parts = append(parts, v.Ctx.path(x))
	}
	return strings.Join(parts, ",")
}

// storesInto: the call visited at v (an inlined package-local call) contains an update of table t.
func storesInto(a *An, w *Walker, v *Visit, t *types.Var) bool {
	for _, u := range w.Visits {
		if u.Seq <= v.Seq {
			continue
		}
		inCallee := false
		for c := u.Ctx; c != nil && c.Parent != nil; c = c.Parent {
			if c.Parent == v.Ctx && c.Site == v.Instr {
				inCallee = true
			}
		}
		if !inCallee {
			continue
		}
		if mu, ok := u.Instr.(*ssa.MapUpdate); ok && u.Ctx.fieldOfValue(mu.Map) == t {
			return true
		}
	}
	return false
}

func c17Pairing(a *An, kf *kqFacts) {
	ro := a.Ro
	roots := []*ssa.Function{ro.API["Remove"], ro.API["Close"]}
	roots = append(roots, ro.Readers...)
	if a.onlyCtl {
		roots = a.ctlRoots
	}
	for _, root := range roots {
		w := a.walk(root)
		closes := unixCloseVisits(w)
		seen := map[string]bool{}
		for _, v := range w.Visits {
			args, ok := isBuiltinCall(v.Instr, "delete")
			if !ok || v.Ctx.fieldOfValue(args[0]) != kf.fdTable {
				continue
			}
			kp := stripIDs(v.Ctx.path(args[1]))
			key := sprintf("%s:delete-fd(%s)", root.Name(), tail(stripCallArgs(kp), 50))
			// every delete site is judged (two calls of the table helper with the same key are two sites); sites that
			// hold are reported once per key
			okc, how := false, "no close(2) of this descriptor in this calling context"
			for _, c := range closes {
				call := c.Instr.(*ssa.Call)
				if stripIDs(c.Ctx.path(call.Call.Args[0])) == kp {
					h, ctr, err := implies(v.Cond, c.Cond)
					if err != nil {
						a.R.fail("%v", err)
					}
					if h {
						okc, how = true, "close(2) at "+a.P.instrPos(call)
						if kf.removeFn == nil {
							kf.removeFn = call.Parent()
						}
					} else {
						how = "close(2) is skipped when " + stripIDs(ctr)
					}
				}
			}
			if okc && seen[key] {
				continue
			}
			seen[key] = true
			a.R.ob("C17.2", key, "a descriptor leaves the table only together with close(2) on it", a.P.instrPos(v.Instr), okc, how)
		}
	}
	if a.onlyCtl {
		return
	}
	if kf.removeFn == nil || len(kf.removal) == 0 {
		a.R.fail("anchor unresolved: the function that closes a watch descriptor and removes its table entry")
		return
	}
	// directory entries: on the Remove flow a removal function is called again for the names listed for the directory
	w := a.walk(ro.API["Remove"])
	child := false
	for _, v := range w.Visits {
		call, ok := v.Instr.(*ssa.Call)
		if !ok {
			continue
		}
		cal := v.Ctx.calleeOf(&call.Call)
		if cal == nil || (!kf.removal[cal] && cal != ro.API["Remove"]) {
			continue
		}
		for _, arg := range call.Call.Args {
			if strings.Contains(v.Ctx.path(arg), "InDir(") {
				child = true
			}
		}
	}
	a.R.ob("C17.2", "remove:directory-entries", "removing a directory's watch goes on to remove the internal watches of its entries", a.P.pos(kf.removeFn.Pos()), child, "")
	// reader: removal on Rename/Remove
	for _, rd := range ro.Readers {
		rw := a.walk(rd)
		_, opBy := opNames(a)
		found := false
		for _, v := range rw.Visits {
			call, ok := v.Instr.(*ssa.Call)
			if !ok || kf.inRemoval(v.Ctx) || !kf.removal[v.Ctx.calleeOf(&call.Call)] {
				continue
			}
			var subj string
			for _, c := range v.Cond {
				for _, l := range c {
					if (l.A.Kind == AkBit || l.A.Kind == AkAny) && isOpSubj(l.A) {
						subj = l.A.Subj
					}
				}
			}
			if os.Getenv("VERIF_DEBUG") != "" {
				fmt.Fprintf(os.Stderr, "C17.2 removal call %s under %s\n", a.P.instrPos(call), stripIDs(v.Cond.String()))
			}
			if subj == "" {
				continue // a removal for another reason (not decided by the event's operation)
			}
			found = true
			okAll := true
			var why []string
			for _, name := range []string{"Rename", "Remove"} {
				var ctx DNF
				for _, c := range v.Cond {
					n := Conj{}
					for k, l := range c {
						if l.A.Subj != subj {
							n[k] = l
						}
					}
					ctx = ctx.or(DNF{n})
				}
				T := ctx.andLit(Lit{A: &Atom{Kind: AkBit, Subj: subj, Bits: opBy[name]}})
				h, ctr, err := implies(T, v.Cond)
				if err != nil {
					a.R.fail("%v", err)
				}
				if !h {
					okAll = false
					why = append(why, "not removed for "+name+" when "+stripIDs(ctr))
				}
			}
			a.R.ob("C17.2", "reader:remove-on-rename-or-remove", "an event with Rename or Remove ends the watch (its descriptor is closed)", a.P.instrPos(call), okAll, strings.Join(why, "; "))
		}
		if !found {
			a.R.ob("C17.2", "reader:remove-on-rename-or-remove", "an event with Rename or Remove ends the watch (its descriptor is closed)", a.P.pos(rd.Pos()), false, "the reader calls no function that closes a watch descriptor and removes its table entry")
		}
	}
}

func c17Close(a *An, kf *kqFacts) {
	ro := a.Ro
	cl := ro.API["Close"]
	w := a.walk(cl)
	// a close(2) of a watch descriptor reachable once closed
	reach := false
	var conds []string
	for _, c := range unixCloseVisits(w) {
		call := c.Instr.(*ssa.Call)
		if !strings.HasSuffix(stripIDs(c.Ctx.path(call.Call.Args[0])), ".wd") {
			continue
		}
		live := underClosed(ro, c.Cond)
		conds = append(conds, stripCallArgs(stripIDs(c.Cond.String())))
		if !live.isFalse() {
			reach = true
		}
	}
	a.R.ob("C17.3", "close:descriptors-released", "Close, which marks the watcher closed first, still reaches close(2) of the watch descriptors (the removal path must not return early once closed)", a.P.pos(cl.Pos()), reach,
		sprintf("%d close(2) site(s) of watch descriptors reachable from Close; with isClosed()=true reachable: %v", len(conds), reach))
	// the removal is called for every listed path: a call of removeFn at the top level of Close inside a loop over a listing of the path table
	loopCall := false
	for _, v := range w.Visits {
		call, ok := v.Instr.(*ssa.Call)
		if !ok || v.Ctx.Parent != nil {
			continue
		}
		cal := v.Ctx.calleeOf(&call.Call)
		if !kf.removal[cal] && cal != ro.API["Remove"] {
			continue
		}
		onlyLoop, _ := v.Cond.everyConj(func(c Conj) bool {
			for _, l := range c {
				isFirst := l.A.Kind == AkPred && l.Neg && l.A.Callee != nil && containsFn(ro.CloseFns, l.A.Callee)
				isLoop := l.A.Kind == AkCmp && strings.Contains(l.A.Subj, "rangeindex") || l.A.Kind == AkOpaque && strings.Contains(l.A.Subj, "next(range(")
				if !isFirst && !isLoop {
					return false
				}
			}
			return true
		})
		if onlyLoop && kf.removal[cal] && cal != ro.API["Remove"] {
			loopCall = true
		}
		if cal == ro.API["Remove"] {
			// the exported Remove is inert once closed
			loopCall = false
			conds = append(conds, "Close calls the exported Remove, which returns nil once closed")
		}
	}
	a.R.ob("C17.3", "close:every-listed-path", "Close calls the internal removal for every listed path, unconditionally", a.P.pos(cl.Pos()), loopCall, strings.Join(uniq(conds), " | "))
	// the listing Close walks is the table of ALL watched paths (the one that leads to the descriptors), not only the
	// paths the user added: per-entry watches have descriptors too
	for _, v := range w.Visits {
		call, ok := v.Instr.(*ssa.Call)
		if !ok || kf.inRemoval(v.Ctx) {
			continue
		}
		cal := v.Ctx.calleeOf(&call.Call)
		if !kf.removal[cal] {
			continue
		}
		var nameArg ssa.Value
		for _, arg := range call.Call.Args {
			if isString(arg.Type()) {
				nameArg = arg
				break
			}
		}
		if nameArg == nil {
			continue
		}
		// the name is an element of a slice: find what was put into that slice
		nv, nc := v.Ctx.resolve(stripConv(nameArg))
		var sl ssa.Value
		if ld, ok := nv.(*ssa.UnOp); ok && ld.Op == token.MUL {
			if ia, ok := ld.X.(*ssa.IndexAddr); ok {
				sl = ia.X
			}
		}
		if sl == nil {
			a.R.ob("C17.3", "close:lists-all-paths", "the names Close removes are the keys of the table of all watched paths", a.P.instrPos(call), false, "the name is not an element of a listing: "+stripIDs(nc.path(nv)))
			continue
		}
		ins, complete := sliceInserted(nc, sl)
		var srcs []string
		okAll := complete && len(ins) > 0
		for _, e := range ins {
			ev, ec := e.c.resolve(stripConv(e.v))
			src := "?"
			if ex, ok := ev.(*ssa.Extract); ok {
				if nx, ok := ex.Tuple.(*ssa.Next); ok && ex.Index == 1 {
					if rg, ok := nx.Iter.(*ssa.Range); ok {
						if f := ec.fieldOfValue(rg.X); f != nil {
							src = "keys of " + fieldStr(ro, f)
							if f != kf.pathTable {
								okAll = false
							}
						}
					}
				}
			}
			if src == "?" {
				okAll = false
				src = stripIDs(ec.path(ev))
			}
			srcs = append(srcs, src)
		}
		a.R.ob("C17.3", "close:lists-all-paths", "the names Close removes are the keys of the table of all watched paths (per-entry watches own descriptors too), not just the user's", a.P.instrPos(call), okAll,
			sprintf("listing elements: %s (complete=%v)", fmtList(uniq(srcs)), complete))
	}
	// wake-up and reader-side releases
	wake := false
	for _, c := range unixCloseVisits(w) {
		call := c.Instr.(*ssa.Call)
		if strings.Contains(c.Ctx.path(call.Call.Args[0]), "pipe") { // at any depth below Close (a shutdown() helper)
			wake = true
		}
	}
	a.R.ob("C17.3", "close:wakes-reader", "Close closes the write end of the pipe that makes the reader exit", a.P.pos(cl.Pos()), wake, "")
	for _, rd := range ro.Readers {
		var rel []string
		for _, c := range unixCloseVisits(a.walk(rd)) {
			if c.InDefer {
				rel = append(rel, stripIDs(c.Ctx.path(c.Instr.(*ssa.Call).Call.Args[0])))
			}
		}
		hasKq, hasPipe := false, false
		for _, s := range rel {
			if strings.HasSuffix(s, ".kq") {
				hasKq = true
			}
			if strings.Contains(s, "pipe") {
				hasPipe = true
			}
		}
		a.R.ob("C17.3", "reader:releases-on-exit", "the reader's deferred function closes the kqueue descriptor and its end of the pipe", a.P.pos(rd.Pos()), hasKq && hasPipe, "closed on exit: "+fmtList(rel))
	}
}

func c17WatchList(a *An, kf *kqFacts) {
	ro := a.Ro
	wl := ro.API["WatchList"]
	w := a.walk(wl)
	var elems []string
	ok := true
	for _, v := range w.Visits {
		call, isCall := v.Instr.(*ssa.Call)
		if !isCall {
			continue
		}
		args, isApp := isBuiltinCall(call, "append")
		if !isApp || len(args) != 2 {
			continue
		}
		if v.Cond.isFalse() {
			continue
		}
		elem := "?"
		if sl, okS := args[1].(*ssa.Slice); okS {
			if al, okA := sl.X.(*ssa.Alloc); okA {
				if refs := al.Referrers(); refs != nil {
					for _, r := range *refs {
						if ia, okI := r.(*ssa.IndexAddr); okI {
							if rr := ia.Referrers(); rr != nil {
								for _, u := range *rr {
									if st, okSt := u.(*ssa.Store); okSt && st.Addr == ssa.Value(ia) {
										elem = stripIDs(v.Ctx.path(st.Val))
									}
								}
							}
						}
					}
				}
			}
		}
		elems = append(elems, elem)
		if !(strings.HasSuffix(elem, "#k") && strings.Contains(elem, "range(recv.") && strings.Contains(elem, "."+kf.userTable.Name()+")")) {
			ok = false
		}
	}
	a.R.ob("C17.4", "watchlist:user-paths-only", "WatchList returns keys of the user-watch table only (never the internal per-entry watches)", a.P.pos(wl.Pos()), ok && len(elems) >= 1, "appended: "+fmtList(uniq(elems)))
	// inserts and deletes of the user table
	var ins, del []string
	insOK, delOK := true, true
	for _, root := range append(ro.apiRoots(), ro.Readers...) {
		for _, v := range a.walk(root).Visits {
			switch x := v.Instr.(type) {
			case *ssa.MapUpdate:
				if v.Ctx.fieldOfValue(x.Map) == kf.userTable {
					kp := stripIDs(v.Ctx.path(x.Key))
					ins = append(ins, root.Name()+": "+tail(kp, 60))
					if root != ro.API["AddWith"] && root != ro.API["Add"] {
						insOK = false
					}
					if !strings.Contains(kp, "path/filepath.Clean(") {
						insOK = false
					}
					// after success of the add: in the root function the insertion is control-dependent on "the error result of
					// the call that opens the descriptor is nil"
					succ := afterSuccessfulAdd(a, root, v)
					if !succ {
						insOK = false
						ins = append(ins, "inserted without a successful add")
					}
				}
			case *ssa.Call:
				if args, isDel := isBuiltinCall(x, "delete"); isDel && v.Ctx.fieldOfValue(args[0]) == kf.userTable {
					kp := stripIDs(v.Ctx.path(args[1]))
					del = append(del, root.Name()+": "+tail(kp, 60))
					if !strings.Contains(kp, "path/filepath.Clean(") {
						delOK = false
					}
				}
			}
		}
	}
	// every descriptor entered into the descriptor table is also entered into the by-directory index (the map of maps
	// that Remove(dir) walks to find the entries of a directory): otherwise removing the directory leaves them open
	var dirIndex *types.Var
	for _, t := range ro.Tables {
		if m, ok := t.Type().Underlying().(*types.Map); ok {
			if _, inner := m.Elem().Underlying().(*types.Map); inner {
				dirIndex = t
			}
		}
	}
	if dirIndex != nil {
		innerT := dirIndex.Type().Underlying().(*types.Map).Elem()
		for _, root := range []*ssa.Function{ro.API["AddWith"]} {
			if root == nil {
				continue
			}
			rw := a.walk(root)
			n := 0
			for _, u := range rw.Visits {
				mu, ok := u.Instr.(*ssa.MapUpdate)
				if !ok || u.Ctx.fieldOfValue(mu.Map) != kf.fdTable {
					continue
				}
				n++
				if n > 1 {
					break // one site is enough to state the rule; the helper is shared by all calling contexts
				}
				fdKey := stripIDs(u.Ctx.path(mu.Key))
				indexed := dnfFalse()
				for _, m := range rw.Visits {
					m2, ok := m.Instr.(*ssa.MapUpdate)
					if !ok || !types.Identical(m2.Map.Type().Underlying(), innerT.Underlying()) {
						continue
					}
					// within the same activation of the backend method that adds the watch (the table helpers it calls may be
					// split in any way)
					scope := u.Ctx
					for x := u.Ctx; x != nil; x = x.Parent {
						if rcv := x.Fn.Signature.Recv(); rcv != nil && deref(rcv.Type()) == types.Type(ro.Backend) {
							scope = x
							break
						}
					}
					within := false
					for x := m.Ctx; x != nil; x = x.Parent {
						if x == scope {
							within = true
						}
					}
					if !within {
						continue
					}
					if stripIDs(m.Ctx.path(m2.Key)) == fdKey {
						indexed = indexed.or(m.Cond)
					}
				}
				h, ctr, err := implies(u.Cond, indexed)
				if err != nil {
					a.R.fail("%v", err)
				}
				wit := "the descriptor is entered into " + fieldStr(ro, dirIndex) + " under the same condition"
				if !h {
					wit = "not entered into " + fieldStr(ro, dirIndex) + " when " + stripIDs(ctr)
				}
				a.R.ob("C17.2", "add:indexed-by-directory", "a descriptor entered into the descriptor table is also entered into the by-directory index that the removal of a directory walks", a.P.instrPos(mu), h, wit)
			}
		}
	}
	// every release of a watch (path-table delete), from Remove or from the reader, also drops the user mark of that path
	// under the same condition: a watch that ended must not stay in WatchList, and a stale mark must not make a later
	// internal watch on the same name look user-added
	for _, root := range append([]*ssa.Function{ro.API["Remove"]}, ro.Readers...) {
		if root == nil {
			continue
		}
		rw := a.walk(root)
		userDel := map[string]DNF{}
		for _, v := range rw.Visits {
			if args, ok := isBuiltinCall(v.Instr, "delete"); ok && v.Ctx.fieldOfValue(args[0]) == kf.userTable {
				k := stripIDs(v.Ctx.path(args[1]))
				userDel[k] = userDel[k].or(v.Cond)
			}
		}
		done := map[string]bool{}
		for _, v := range rw.Visits {
			args, ok := isBuiltinCall(v.Instr, "delete")
			if !ok || v.Ctx.fieldOfValue(args[0]) != kf.pathTable {
				continue
			}
			k := stripIDs(v.Ctx.path(args[1]))
			key := sprintf("%s:release-clears-user-mark(%s)", shortFn(root), tail(stripCallArgs(k), 60))
			if done[key] {
				continue
			}
			done[key] = true
			okc, wit := false, "no delete of the user mark for this name in this calling context"
			if d, have := userDel[k]; have {
				h, ctr, err := implies(v.Cond, d)
				if err != nil {
					a.R.fail("%v", err)
				}
				okc, wit = h, "user mark deleted whenever the path entry is"
				if !h {
					wit = "the user mark survives the release when " + stripIDs(ctr)
				}
			}
			a.R.ob("C17.4", key, "releasing a watch (path-table delete) also deletes the path from the user-watch table", a.P.instrPos(v.Instr), okc, wit)
		}
	}
	// inside one removal, nothing is decided by looking an entry up after it was deleted (such a lookup can only miss: a
	// "is it a directory?" test placed behind the table delete silently turns the recursion over the entries off)
	for _, root := range append([]*ssa.Function{ro.API["Remove"], ro.API["Close"]}, ro.Readers...) {
		if root == nil {
			continue
		}
		rw := a.walk(root)
		outer := func(c *Ctx) *Ctx { // outermost removal context on the chain
			var o *Ctx
			for x := c; x != nil && x.Parent != nil; x = x.Parent {
				if kf.removal[x.Fn] {
					o = x
				}
			}
			return o
		}
		type del struct {
			v   *Visit
			key string
		}
		var dels []del
		for _, v := range rw.Visits {
			if args, ok := isBuiltinCall(v.Instr, "delete"); ok && v.Ctx.fieldOfValue(args[0]) == kf.pathTable && outer(v.Ctx) != nil {
				dels = append(dels, del{v, stripIDs(v.Ctx.path(args[1]))})
			}
		}
		seenK := map[string]bool{}
		for _, v := range rw.Visits {
			lk, ok := v.Instr.(*ssa.Lookup)
			if !ok || v.Ctx.fieldOfValue(lk.X) != kf.pathTable {
				continue
			}
			o := outer(v.Ctx)
			if o == nil {
				continue
			}
			k := stripIDs(v.Ctx.path(lk.Index))
			for _, d := range dels {
				if d.key == k && outer(d.v.Ctx) == o && precedesAlways(d.v, v) {
					key := sprintf("%s:no-lookup-after-delete(%s)", shortFn(root), tail(stripCallArgs(k), 50))
					if !seenK[key] {
						seenK[key] = true
						a.R.ob("C17.2", key, "within one removal the path table is not consulted for a key that was just deleted from it", a.P.instrPos(lk), false,
							"looked up at "+a.P.instrPos(lk)+" after the delete at "+a.P.instrPos(d.v.Instr))
					}
				}
			}
		}
	}
	// the exported Remove reaches the removal unconditionally (once it is known that the watcher is open): no state of
	// the tables makes it keep the descriptors of a listed path
	if rm := ro.API["Remove"]; rm != nil {
		found := false
		for _, v := range a.walk(rm).Visits {
			call, ok := v.Instr.(*ssa.Call)
			if !ok || kf.inRemoval(v.Ctx) || !kf.removal[v.Ctx.calleeOf(&call.Call)] {
				continue
			}
			found = true
			uncond, bad := v.Cond.everyConj(func(c Conj) bool {
				for _, l := range c {
					if t, _ := ro.closedLit(l); !t {
						return false
					}
				}
				return true
			})
			wit := "reached whenever the watcher is open"
			if !uncond {
				wit = "the removal is skipped unless " + stripIDs(bad.String())
			}
			a.R.ob("C17.2", "Remove:always-removes", "the exported Remove hands every request to the removal function (which closes the descriptor of a listed path and of a directory's entries); nothing but the closed test stands in front of it", a.P.instrPos(call), uncond, wit)
		}
		if !found {
			a.R.ob("C17.2", "Remove:always-removes", "the exported Remove reaches a removal function", a.P.pos(rm.Pos()), false, "no removal function is called from Remove")
		}
	}
	a.R.ob("C17.4", "user-table:insert", "the user-watch table is inserted only by AddWith, after a successful add, under the cleaned path", a.P.pos(wl.Pos()), insOK && len(ins) >= 1, fmtList(uniq(ins)))
	a.R.ob("C17.4", "user-table:delete", "the user-watch table is deleted under the same normalisation (filepath.Clean), so Remove finds what Add recorded", a.P.pos(wl.Pos()), delOK && len(del) >= 1, fmtList(uniq(del)))
}

// liftOpenWrapper: O is a call (of open(2), or of a wrapper already lifted) inside a function that does nothing but
// open and return (descriptor, error) of such calls; the result is the visit of that function's call site in the parent
// context, or nil when the function is not such a wrapper.
func liftOpenWrapper(a *An, w *Walker, O *Visit) *Visit {
	frame := O.Ctx
	if frame == nil || frame.Parent == nil {
		return nil
	}
	site, ok := frame.Site.(*ssa.Call)
	if !ok {
		return nil
	}
	fn := O.Instr.Parent()
	res := fn.Signature.Results()
	if res.Len() != 2 || !types.Identical(res.At(0).Type(), O.Instr.(*ssa.Call).Call.Signature().Results().At(0).Type()) {
		return nil
	}
	var openCalls []*ssa.Call
	for _, b := range fn.Blocks {
		for _, in := range b.Instrs {
			switch x := in.(type) {
			case *ssa.Store, *ssa.MapUpdate, *ssa.Send, *ssa.Go, *ssa.Defer:
				return nil
			case *ssa.Call:
				cal := x.Call.StaticCallee()
				if cal == nil || a.P.inMain(cal) {
					if x != O.Instr {
						return nil
					}
				}
				if x == O.Instr || (cal != nil && fullName(cal) == "golang.org/x/sys/unix.Open") {
					openCalls = append(openCalls, x)
				}
			}
		}
	}
	isOpenRes := func(v ssa.Value, idx int) bool {
		srcs := valueEdges(frame, v, dnfTrue())
		if len(srcs) == 0 {
			return false
		}
		for _, e := range srcs {
			ex, ok := e.V.(*ssa.Extract)
			if !ok || ex.Index != idx || e.Ctx != frame {
				return false
			}
			found := false
			for _, oc := range openCalls {
				if ex.Tuple == ssa.Value(oc) {
					found = true
				}
			}
			if !found {
				return false
			}
		}
		return true
	}
	nret := 0
	for _, b := range fn.Blocks {
		if r, ok := b.Instrs[len(b.Instrs)-1].(*ssa.Return); ok {
			nret++
			if len(r.Results) != 2 || !isOpenRes(r.Results[0], 0) || !isOpenRes(r.Results[1], 1) {
				return nil
			}
		}
	}
	if nret == 0 {
		return nil
	}
	for _, v := range w.Visits {
		if v.Instr == ssa.Instruction(site) && v.Ctx == frame.Parent {
			return v
		}
	}
	return nil
}

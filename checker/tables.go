package main

// Engine E-D: extraction of flag tables from accumulate-by-OR code.

import (
	"fmt"
	"go/token"
	"go/types"
	"sort"
	"strings"

	"golang.org/x/tools/go/ssa"
)

type Row struct {
	K    uint64
	Kind string // "or", "clear", "ret", "assign"
	Cond DNF    // reaching condition of the effect (relative to the walked root)
	Pos  string
	In   ssa.Instruction
}

// visitIndex maps (ctx, instr) to its visit for one walker.
type visitIndex map[*Ctx]map[ssa.Instruction]*Visit

func indexVisits(w *Walker) visitIndex {
	vi := visitIndex{}
	for _, v := range w.Visits {
		if vi[v.Ctx] == nil {
			vi[v.Ctx] = map[ssa.Instruction]*Visit{}
		}
		vi[v.Ctx][v.Instr] = v
	}
	return vi
}

// rowsForValue decomposes an accumulator value (phi chain of OR-with-constant) into rows.
func rowsForValue(a *An, vi visitIndex, ctx *Ctx, v ssa.Value) ([]Row, error) {
	var rows []Row
	seen := map[ssa.Value]bool{}
	var rec func(v ssa.Value) error
	rec = func(v ssa.Value) error {
		v = stripConv(v)
		if seen[v] {
			return nil
		}
		seen[v] = true
		switch x := v.(type) {
		case *ssa.Const:
			if k, ok := constUint(x); ok {
				if k == 0 {
					return nil
				}
				rows = append(rows, Row{K: k, Kind: "assign", Cond: dnfTrue(), Pos: "-"})
				return nil
			}
			return fmt.Errorf("non-integer constant %s in accumulator", x)
		case *ssa.Phi:
			// `m = K` while m is still the zero value it started with (all other incoming values are the constant 0) is
			// `m |= K` under the condition of that edge
			allConst := true
			for _, e := range x.Edges {
				if _, ok := constUint(stripConv(e)); !ok {
					allConst = false
				}
			}
			if allConst {
				for i, e := range x.Edges {
					if k, _ := constUint(stripConv(e)); k != 0 {
						rows = append(rows, Row{K: k, Kind: "or", Cond: phiEdgeCond(ctx, x, i), Pos: a.P.instrPos(x), In: x})
					}
				}
				return nil
			}
			for _, e := range x.Edges {
				if err := rec(e); err != nil {
					return err
				}
			}
			return nil
		case *ssa.BinOp:
			var k uint64
			var other ssa.Value
			if kk, ok := ctx.constUint(x.Y); ok {
				k, other = kk, x.X
			} else if kk, ok := ctx.constUint(x.X); ok {
				k, other = kk, x.Y
			} else {
				vis := vi[ctx][x]
				if vis != nil {
					if trows, isT, err := expandTableRows(a, ctx, x, vis.Local, a.P.instrPos(x), x); isT {
						if err != nil {
							return err
						}
						rows = append(rows, trows...)
						// the other operand is the running accumulator
						for _, o := range []ssa.Value{x.X, x.Y} {
							if _, _, isElem := tableElem(a.P, ctx.path(o)); !isElem {
								return rec(o)
							}
						}
						return nil
					}
				}
				return fmt.Errorf("accumulator combined with a non-constant at %s: %s", a.P.instrPos(x), x)
			}
			vis := vi[ctx][x]
			if vis == nil {
				return fmt.Errorf("effect %s at %s was not visited (dead code?)", x, a.P.instrPos(x))
			}
			switch x.Op {
			case token.OR:
				rows = append(rows, Row{K: k, Kind: "or", Cond: vis.Local, Pos: a.P.instrPos(x), In: x})
			case token.AND_NOT:
				rows = append(rows, Row{K: k, Kind: "clear", Cond: vis.Local, Pos: a.P.instrPos(x), In: x})
			default:
				return fmt.Errorf("accumulator updated by %s (only |= const and &^= const are tabular) at %s", x.Op, a.P.instrPos(x))
			}
			return rec(other)
		}
		return fmt.Errorf("accumulator has a non-tabular source %s (%T)", v, v)
	}
	if err := rec(v); err != nil {
		return nil, err
	}
	return rows, nil
}

// rowsForField: effects on field `field` of local struct cell al inside ctx.Fn.
func rowsForField(a *An, vi visitIndex, ctx *Ctx, al *ssa.Alloc, field string) ([]Row, error) {
	var rows []Row
	// every store, in any context of the walk (the translator itself, its closures, helpers that get a pointer to the
	// cell), to that field of that cell
	type site struct {
		vis *Visit
		st  *ssa.Store
		fa  *ssa.FieldAddr
	}
	var sites []site
	for c, m := range vi {
		for in, vis := range m {
			st, ok := in.(*ssa.Store)
			if !ok {
				continue
			}
			fa, ok := st.Addr.(*ssa.FieldAddr)
			if !ok || fieldName(fa.X.Type(), fa.Field) != field {
				continue
			}
			base, bctx := c.resolve(fa.X)
			if base != ssa.Value(al) || bctx != ctx {
				continue
			}
			sites = append(sites, site{vis, st, fa})
		}
	}
	sort.Slice(sites, func(i, j int) bool { return sites[i].vis.Seq < sites[j].vis.Seq })
	// the cell must not be handed to code that is not part of the walk
	for c, m := range vi {
		for in := range m {
			call, ok := in.(*ssa.Call)
			if !ok {
				continue
			}
			for _, arg := range call.Call.Args {
				if base, bctx := c.resolve(arg); base == ssa.Value(al) && bctx == ctx && c.calleeCtx(call, &call.Call) == nil {
					return nil, fmt.Errorf("the address of the accumulator is passed to %s at %s, which is not analysed", call.Call.Value.Name(), a.P.instrPos(call))
				}
			}
		}
	}
	for _, s := range sites {
		vis, st, fa, c := s.vis, s.st, s.fa, s.vis.Ctx
		cond := vis.Cond
		val := stripConv(st.Val)
		if k, ok := c.constUint(val); ok {
			if k != 0 {
				rows = append(rows, Row{K: k, Kind: "assign", Cond: cond, Pos: a.P.instrPos(st), In: st})
			}
			continue
		}
		b, ok := val.(*ssa.BinOp)
		if !ok {
			// the accumulated value may be computed by a pure helper (e.Op = opsFromMask(mask)) or built in a local
			// (`var op Op; if ... { op |= X }; e.Op = op`)
			rv, rc := c.resolve(val)
			switch rv.(type) {
			case *ssa.Phi, *ssa.BinOp:
				vrows, err := rowsForValue(a, vi, rc, rv)
				if err != nil {
					return nil, err
				}
				rows = append(rows, vrows...)
				continue
			}
			return nil, fmt.Errorf("field %s is assigned a non-tabular value at %s: %s", field, a.P.instrPos(st), st.Val)
		}
		var k uint64
		var other ssa.Value
		if kk, ok := c.constUint(b.Y); ok {
			k, other = kk, b.X
		} else if kk, ok := c.constUint(b.X); ok {
			k, other = kk, b.Y
		} else {
			// data-driven form: |= row.value under a test of the input against row.flag, for a constant package table
			if trows, isT, err := expandTableRows(a, c, b, vis.Local, a.P.instrPos(st), st); isT {
				if err != nil {
					return nil, err
				}
				rows = append(rows, trows...)
				continue
			}
			return nil, fmt.Errorf("field %s combined with a non-constant at %s", field, a.P.instrPos(st))
		}
		// other must be a load of the same field of the same cell
		ld, ok := stripConv(other).(*ssa.UnOp)
		okLoad := false
		if ok && ld.Op == token.MUL {
			if fa2, ok := ld.X.(*ssa.FieldAddr); ok && fa2.Field == fa.Field {
				if b2, c2 := c.resolve(fa2.X); b2 == ssa.Value(al) && c2 == ctx {
					okLoad = true
				}
			}
		}
		if !okLoad {
			return nil, fmt.Errorf("field %s is overwritten (not accumulated) at %s", field, a.P.instrPos(st))
		}
		switch b.Op {
		case token.OR:
			rows = append(rows, Row{K: k, Kind: "or", Cond: cond, Pos: a.P.instrPos(st), In: st})
		case token.AND_NOT:
			rows = append(rows, Row{K: k, Kind: "clear", Cond: cond, Pos: a.P.instrPos(st), In: st})
		default:
			return nil, fmt.Errorf("field %s updated by %s at %s", field, b.Op, a.P.instrPos(st))
		}
	}
	return rows, nil
}

// rowsForReturns: constant results per return (switch-return form) at the top level of ctx.
func rowsForReturns(a *An, w *Walker, ctx *Ctx, idx int) ([]Row, error) {
	var rows []Row
	for _, v := range w.Visits {
		r, ok := v.Instr.(*ssa.Return)
		if !ok || v.Ctx != ctx || idx >= len(r.Results) {
			continue
		}
		k, ok := ctx.constUint(r.Results[idx])
		if !ok {
			return nil, fmt.Errorf("non-constant result at %s", a.P.instrPos(r))
		}
		rows = append(rows, Row{K: k, Kind: "ret", Cond: v.Local, Pos: a.P.instrPos(r), In: r})
	}
	return rows, nil
}

// guardBits interprets a row's condition as "any of these input bits" over one subject.
// It returns the subject, the bit set, and a problem description when the condition is not of that form.
func guardBits(cond DNF, subjOK func(string) bool) (subj string, bits uint64, problem string) {
	if cond.isTrue() {
		return "", 0, "unconditional"
	}
	for _, c := range cond {
		var pos []Lit
		for _, l := range c {
			switch l.A.Kind {
			case AkBit, AkAny, AkAll:
				if !subjOK(l.A.Subj) {
					return "", 0, "guard on another value: " + stripIDs(l.String())
				}
				if l.Neg {
					// negative literals arise from else-chains (x | (y & !x)); simplify() removes them when
					// the complementary conjunct exists. A surviving negative literal makes the row non-monotone.
					return "", 0, "non-monotone guard " + stripIDs(c.String())
				}
				pos = append(pos, l)
			default:
				return "", 0, "guard depends on " + stripIDs(l.String())
			}
		}
		if len(pos) != 1 {
			return "", 0, "guard is a conjunction of several bit tests: " + stripIDs(c.String())
		}
		l := pos[0]
		if l.A.Kind == AkAll && popcount(l.A.Bits) > 1 {
			return "", 0, "guard requires several bits at once: " + stripIDs(l.String())
		}
		if subj != "" && subj != l.A.Subj {
			return "", 0, "guards test different values"
		}
		subj = l.A.Subj
		bits |= l.A.Bits
	}
	return subj, bits, ""
}

// Table: input bit -> OR of output constants.
type Table map[uint64]uint64

func (t Table) String(inName, outName func(uint64) string) string {
	var ks []uint64
	for k := range t {
		ks = append(ks, k)
	}
	sort.Slice(ks, func(i, j int) bool { return ks[i] < ks[j] })
	var ss []string
	for _, k := range ks {
		ss = append(ss, inName(k)+"->"+outName(t[k]))
	}
	return strings.Join(ss, ", ")
}

// buildTable turns OR rows into a bit table; other row kinds and malformed guards are returned as problems.
func buildTable(rows []Row, subjOK func(string) bool) (Table, []Row, []string) {
	t := Table{}
	var special []Row
	var problems []string
	// what each single input bit already yields through rows (of this accumulator) that fire on that bit alone
	singleOut := map[uint64]uint64{}
	for _, r := range rows {
		if r.Kind != "or" {
			continue
		}
		for _, c := range r.Cond {
			if len(c) == 1 {
				for _, l := range c {
					if !l.Neg && (l.A.Kind == AkBit || l.A.Kind == AkAny || l.A.Kind == AkAll && popcount(l.A.Bits) == 1) {
						for b := uint64(1); b != 0 && b <= l.A.Bits; b <<= 1 {
							if l.A.Bits&b != 0 {
								singleOut[b] |= r.K
							}
						}
					}
				}
			}
		}
	}
	for _, r := range rows {
		if r.Kind != "or" {
			special = append(special, r)
			continue
		}
		// A conjunct that requires several bits at once (m&K == K, multi-bit K) is redundant when one of those bits
		// alone already yields this row's output, in this row or in another one (all(K) => bit(k)); drop such
		// conjuncts before reading the guard.
		var cond DNF
		for _, c := range r.Cond {
			redundant := false
			if len(c) == 1 {
				for _, l := range c {
					if !l.Neg && l.A.Kind == AkAll && popcount(l.A.Bits) > 1 {
						for b := uint64(1); b != 0 && b <= l.A.Bits; b <<= 1 {
							if l.A.Bits&b != 0 && singleOut[b]&r.K == r.K {
								redundant = true
							}
						}
					}
				}
			}
			if !redundant {
				cond = append(cond, c)
			}
		}
		if len(cond) == 0 && len(r.Cond) > 0 {
			continue // the whole row is redundant
		}
		_, bits, prob := guardBits(cond, subjOK)
		if prob != "" {
			problems = append(problems, fmt.Sprintf("row |= %#x at %s: %s", r.K, r.Pos, prob))
			continue
		}
		for b := uint64(1); b != 0 && b <= bits; b <<= 1 {
			if bits&b != 0 {
				t[b] |= r.K
			}
		}
	}
	return t, special, problems
}

// diffTables compares got with want; returns human-readable differences.
func diffTables(got, want Table, inName, outName func(uint64) string) []string {
	var out []string
	keys := map[uint64]bool{}
	for k := range got {
		keys[k] = true
	}
	for k := range want {
		keys[k] = true
	}
	var ks []uint64
	for k := range keys {
		ks = append(ks, k)
	}
	sort.Slice(ks, func(i, j int) bool { return ks[i] < ks[j] })
	for _, k := range ks {
		g, w := got[k], want[k]
		if g == w {
			continue
		}
		out = append(out, fmt.Sprintf("%s yields %s, documented %s", inName(k), outName(g), outName(w)))
	}
	return out
}

// ---------------------------------------------------------------------------
// Names for constants.

func opNames(a *An) (names map[uint64]string, byName map[string]uint64) {
	names = map[uint64]string{}
	byName = map[string]uint64{}
	for n, m := range a.P.Main.Members {
		if c, ok := m.(*ssa.NamedConst); ok && types.Identical(c.Type(), a.Ro.Op) {
			if k, ok := constUint(c.Value); ok {
				byName[n] = k
				if popcount(k) == 1 {
					names[k] = n // the defined operations are the single-bit constants; combined masks are conveniences
				}
			}
		}
	}
	return
}

func maskName(names map[uint64]string) func(uint64) string {
	return func(m uint64) string {
		if m == 0 {
			return "0"
		}
		var parts []string
		for b := uint64(1); b != 0 && b <= m; b <<= 1 {
			if m&b == 0 {
				continue
			}
			if n, ok := names[b]; ok {
				parts = append(parts, n)
			} else {
				parts = append(parts, fmt.Sprintf("%#x", b))
			}
		}
		return strings.Join(parts, "|")
	}
}

// nativeNames: names of single-bit constants with the given prefix in x/sys (unix or windows) or the main package.
var preferredNames = map[string]bool{}

func init() {
	for _, m := range []map[string]string{inotifyTranslate} {
		for k := range m {
			preferredNames[k] = true
		}
	}
	for _, n := range []string{"NOTE_DELETE", "NOTE_WRITE", "NOTE_RENAME", "NOTE_ATTRIB", "IN_IGNORED", "IN_UNMOUNT", "IN_Q_OVERFLOW", "IN_ISDIR", "IN_DONT_FOLLOW", "IN_MASK_ADD"} {
		preferredNames[n] = true
	}
}

func nativeNames(a *An, prefixes ...string) (map[uint64]string, map[string]uint64) {
	names := map[uint64]string{}
	byName := map[string]uint64{}
	add := func(pk *ssa.Package) {
		for n, m := range pk.Members {
			c, ok := m.(*ssa.NamedConst)
			if !ok {
				continue
			}
			match := false
			for _, p := range prefixes {
				if strings.HasPrefix(n, p) {
					match = true
				}
			}
			if !match {
				continue
			}
			if k, ok := constUint(c.Value); ok {
				byName[n] = k
				if popcount(k) == 1 {
					old, dup := names[k]
					switch {
					case !dup:
						names[k] = n
					case preferredNames[old]:
					case preferredNames[n]:
						names[k] = n
					case len(n) < len(old) || (len(n) == len(old) && n < old):
						names[k] = n
					}
				}
			}
		}
	}
	for _, pk := range a.P.Prog.AllPackages() {
		switch pk.Pkg.Path() {
		case "golang.org/x/sys/unix", "golang.org/x/sys/windows":
			add(pk)
		}
	}
	add(a.P.Main)
	return names, byName
}

package main

import (
	"go/constant"
	"go/token"
	"go/types"
	"strings"

	"golang.org/x/tools/go/ssa"
)

func init() {
	register(&property{
		Meta: propMeta{
			ID:    "C20",
			Title: "Test-support Diff produces a correct edit script, empty exactly on equality",
			Explanation: "Narrow structural rules over the SSA of internal/ztest/diff.go. Decided, and only this: " +
				"(1) in Diff and in DiffMatch both texts pass through the same normalisation chain before they are compared (the pair returned by the option step, then TrimSpace, then the line splitter) - a necessary condition for 'empty exactly on equality after trimming'; " +
				"(2) return discipline: Diff returns \"\" only when the computed diff is empty and otherwise a string with a non-empty constant prefix; DiffMatch returns \"\" only under the result of a full-match (^...$) regular expression on the first text, and otherwise never \"\"; " +
				"(3) the context width handed to the hunk grouping is the constant 3 from both entry points; " +
				"(4) the hunk grouping ends a group exactly where an unchanged run is longer than twice the context parameter (linear form of the threshold = 2n). " +
				"(5) every trimming of an unchanged run against the context parameter n is min(x, y+n) / max(x, y-n) with coefficient 1 and no constant (at most n unchanged lines at either end of a hunk, and exactly n where there are that many); " +
				"(6) the range formatter of the hunk header renders start+1 - start only, and always, under the empty-range test - and the length stop-start, nothing else; " +
				"(7) the header's two ranges run from the start field of the group's first opcode to the stop field of its last, '-' range first, and these are the field pairs by which the body slices the first text (' ' and '-' lines) and the second text ('+' lines). " +
				"NOT decided (the core of the statement): that the matching blocks - and hence the edit script - are correct (applying it to the first text yields the second), placeholder expansion in DiffMatch - a round-trip property over all pairs of sequences, out of reach of a sound static argument here; an exhaustive small-scope enumeration would be exploration, a different technique.",
			Rule:        "one obligation per entry point and fact",
			Assumptions: []string{"go/types + go/ssa", "regexp and strings behave as documented"},
			MinObl:      12,
		},
		Configs: tiered(linuxQuick, linuxQuick),
		Run:     runC20,
	})
}

func runC20(p *Program, e *Engine, r *Result, tier string) {
	if p.Ztest == nil {
		r.fail("anchor unresolved: package internal/ztest is not loaded")
		return
	}
	e.InlinePkg = p.Ztest
	a := &An{P: p, E: e, R: r, walks: map[*ssa.Function]*Walker{}}
	c20Grouping(a)
	c20ContextTrim(a)
	rfs := c20RangeFormatters(a)
	if len(rfs) == 0 {
		r.fail("anchor unresolved: no (int, int) string function in internal/ztest (range formatter of the hunk header)")
	}
	for _, rf := range rfs {
		c20RangeFormat(a, rf)
	}
	c20HeaderBody(a, rfs)
	for _, name := range []string{"Diff", "DiffMatch"} {
		fn := p.Ztest.Func(name)
		if fn == nil {
			r.fail("anchor unresolved: ztest.%s", name)
			continue
		}
		w := e.Walk(fn, WalkOpts{Pkg: p.Ztest, MaxDepth: 1})
		r.Sites += len(w.Visits)
		root := w.Visits[0].Ctx.root()
		// the struct literal of the diff request: fields A, B, Context
		var ctxP string
		for _, v := range w.Visits {
			st, ok := v.Instr.(*ssa.Store)
			if !ok {
				continue
			}
			fa, ok := st.Addr.(*ssa.FieldAddr)
			if !ok {
				continue
			}
			switch fieldName(fa.X.Type(), fa.Field) {
			case "Context":
				ctxP = stripIDs(v.Ctx.path(st.Val))
			}
		}
		// (1) same chain: outer two calls agree, and the backward slices reach results #0 / #1 of one and the same
		// option-step call (a package function returning the pair of texts)
		var aV, bV ssa.Value
		var abCtx *Ctx
		for _, v := range w.Visits {
			if st, ok := v.Instr.(*ssa.Store); ok {
				if fa, ok := st.Addr.(*ssa.FieldAddr); ok {
					switch fieldName(fa.X.Type(), fa.Field) {
					case "A":
						aV, abCtx = st.Val, v.Ctx
					case "B":
						bV, abCtx = st.Val, v.Ctx
					}
				}
			}
		}
		outerCalls := func(v ssa.Value) string {
			var names []string
			for i := 0; i < 2 && v != nil; i++ {
				c, ok := v.(*ssa.Call)
				if !ok || c.Call.StaticCallee() == nil || len(c.Call.Args) == 0 {
					break
				}
				names = append(names, c.Call.StaticCallee().Name())
				v = c.Call.Args[0]
			}
			return strings.Join(names, " <- ")
		}
		slice := func(v ssa.Value) map[string]bool {
			out := map[string]bool{}
			seen := map[ssa.Value]bool{}
			var rec func(v ssa.Value, d int)
			rec = func(v ssa.Value, d int) {
				if v == nil || seen[v] || d > 12 {
					return
				}
				seen[v] = true
				if prm, isP := v.(*ssa.Parameter); isP && abCtx != nil {
					if b, ok := abCtx.Bind[prm]; ok && b.Val != nil {
						rec(b.Val, d+1)
						return
					}
				}
				switch x := v.(type) {
				case *ssa.Extract:
					if c, ok := x.Tuple.(*ssa.Call); ok && c.Call.StaticCallee() != nil && fnPkg(c.Call.StaticCallee()) == p.Ztest {
						out[sprintf("%s#%d", c.Call.StaticCallee().Name(), x.Index)] = true
						return
					}
					rec(x.Tuple, d+1)
				case *ssa.Call:
					if x.Call.IsInvoke() {
						rec(x.Call.Value, d+1)
					}
					for _, arg := range x.Call.Args {
						rec(arg, d+1)
					}
				case *ssa.Phi:
					for _, e := range x.Edges {
						rec(e, d+1)
					}
				case *ssa.Convert:
					rec(x.X, d+1)
				case *ssa.BinOp:
					rec(x.X, d+1)
					rec(x.Y, d+1)
				case *ssa.MakeClosure:
				case *ssa.Slice:
					rec(x.X, d+1)
				}
			}
			rec(v, 0)
			return out
		}
		sa, sb := outerCalls(aV), outerCalls(bV)
		sla, slb := slice(aV), slice(bV)
		var la, lb []string
		for k := range sla {
			la = append(la, k)
		}
		for k := range slb {
			lb = append(lb, k)
		}
		same := aV != nil && bV != nil && sa == sb && strings.Contains(sa, "TrimSpace")
		usesOpt := len(la) == 1 && len(lb) == 1 && strings.HasSuffix(la[0], "#0") && strings.HasSuffix(lb[0], "#1") && strings.TrimSuffix(la[0], "#0") == strings.TrimSuffix(lb[0], "#1")
		a.R.ob("C20.1", name+":same-normalisation", "both texts are normalised the same way (option step, TrimSpace, line split) before they are compared", a.P.pos(fn.Pos()), same && usesOpt,
			sprintf("A <- %s <- %v | B <- %s <- %v", sa, la, sb, lb))
		// (3) context constant
		a.R.ob("C20.3", name+":context", "hunks are built with a context of exactly 3 lines", a.P.pos(fn.Pos()), ctxP == "c:3", "Context <- "+ctxP)
		// (2) returns
		nEmpty, okEmpty, okNonEmpty := 0, true, true
		var rw []string
		for _, v := range w.Visits {
			ret, ok := v.Instr.(*ssa.Return)
			if !ok || v.Ctx != root || len(ret.Results) != 1 {
				continue
			}
			res := ret.Results[0]
			if k, ok := res.(*ssa.Const); ok && k.Value != nil && k.Value.Kind() == constant.String {
				s := constant.StringVal(k.Value)
				if s == "" {
					nEmpty++
					var g bool
					if name == "Diff" {
						g, _ = v.Cond.everyConj(func(c Conj) bool {
							return c.has(func(l Lit) bool {
								return l.A.Kind == AkCmp && !l.Neg && l.A.Op == "==" && l.A.K == "c:0" && strings.HasPrefix(l.A.Subj, "call:len(") && strings.Contains(l.A.Subj, "makeUnifiedDiff")
							})
						})
					} else {
						g, _ = v.Cond.everyConj(func(c Conj) bool {
							return c.has(func(l Lit) bool {
								return l.A.Kind == AkPred && !l.Neg && strings.Contains(l.A.Subj, "(*regexp.Regexp).MatchString(") && fullMatchRegexp(l.A)
							})
						})
					}
					if !g {
						okEmpty = false
						rw = append(rw, "returns \"\" under "+stripIDs(v.Cond.String()))
					}
				}
				continue
			}
			// non-constant result: "\n" + d
			if b, ok := res.(*ssa.BinOp); ok && b.Op == token.ADD {
				if k, ok := b.X.(*ssa.Const); ok && k.Value != nil && k.Value.Kind() == constant.String && constant.StringVal(k.Value) != "" {
					continue
				}
			}
			okNonEmpty = false
			rw = append(rw, "returns "+stripIDs(root.path(res)))
		}
		a.R.ob("C20.2", name+":empty-only-on-equality", "the empty string is returned only on the equality test (empty diff / full regular-expression match)", a.P.pos(fn.Pos()), okEmpty && nEmpty == 1, sprintf("%d empty return(s); %s", nEmpty, strings.Join(rw, "; ")))
		a.R.ob("C20.2", name+":non-empty-otherwise", "every other return yields a non-empty text (constant, or a non-empty constant prefix followed by the diff)", a.P.pos(fn.Pos()), okNonEmpty, strings.Join(rw, "; "))
	}
}

// fullMatchRegexp: the receiver of MatchString is regexp.MustCompile("^" + x + "$") and the argument is a parameter-derived text.
func fullMatchRegexp(at *Atom) bool {
	call := at.Call
	if call == nil || len(call.Call.Args) < 2 {
		return false
	}
	rc, ok := call.Call.Args[0].(*ssa.Call)
	if !ok || rc.Call.StaticCallee() == nil || !strings.HasPrefix(fullName(rc.Call.StaticCallee()), "regexp.MustCompile") {
		return false
	}
	p := at.Ctx.path(rc.Call.Args[0])
	return strings.Contains(p, `c:"^"`) && strings.Contains(p, `c:"$"`)
}

// c20Grouping: hunks are split where an unchanged run is longer than the context kept on BOTH sides of it: the test that
// ends a group compares the length of the run (a difference of two positions) with exactly twice the context parameter.
// With a smaller threshold two hunks overlap; with a larger one changes that are further apart than 2n are merged with
// more than n lines of context between them.
func c20Grouping(a *An) {
	n := 0
	for _, fn := range a.P.srcFuncs(a.P.Ztest) {
		var ctxParams []ssa.Value
		for _, prm := range fn.Params {
			if b, ok := prm.Type().Underlying().(*types.Basic); ok && b.Kind() == types.Int {
				ctxParams = append(ctxParams, prm)
			}
		}
		if len(ctxParams) == 0 {
			continue
		}
		isCtx := func(v ssa.Value) bool {
			v = stripConv(v)
			for _, p := range ctxParams {
				if v == p {
					return true
				}
			}
			// the parameter after its default was applied: phi(param, const)
			if ph, ok := v.(*ssa.Phi); ok {
				hasParam := false
				for _, e := range ph.Edges {
					if _, isK := e.(*ssa.Const); isK {
						continue
					}
					if !isCtxParam(ctxParams, e) {
						return false
					}
					hasParam = true
				}
				return hasParam
			}
			return false
		}
		for _, b := range fn.Blocks {
			for _, in := range b.Instrs {
				bin, ok := in.(*ssa.BinOp)
				if !ok {
					continue
				}
				x, t, op := bin.X, bin.Y, bin.Op
				switch op {
				case token.LSS:
					x, t, op = t, x, token.GTR
				case token.LEQ:
					x, t, op = t, x, token.GEQ
				}
				if op != token.GTR && op != token.GEQ {
					continue
				}
				lx, lt := lin(x), lin(t)
				if !lx.ok || !lt.ok || len(lx.terms) != 2 || lx.k != 0 || len(lt.terms) != 1 {
					continue
				}
				plus, minus := 0, 0
				for _, c := range lx.terms {
					if c == 1 {
						plus++
					}
					if c == -1 {
						minus++
					}
				}
				if plus != 1 || minus != 1 {
					continue
				}
				var coef int64
				isN := false
				for v, c := range lt.terms {
					if isCtx(v) {
						isN, coef = true, c
					}
				}
				if !isN {
					continue
				}
				n++
				want := int64(0)
				if op == token.GEQ {
					want = 1
				}
				ok2 := coef == 2 && lt.k == want
				a.R.ob("C20.4", "grouping-threshold@"+fn.Name(), "a group of changes ends where an unchanged run is longer than the context kept on both sides of it (2 x context): hunks neither overlap nor carry more than the context between two changes", a.P.instrPos(bin), ok2,
					sprintf("run length compared with %d x context %+d (%s)", coef, lt.k, bin.Op))
			}
		}
	}
	if n == 0 {
		a.R.fail("anchor unresolved: the comparison of an unchanged run's length with the context parameter (hunk grouping)")
	}
}

func isCtxParam(ps []ssa.Value, v ssa.Value) bool {
	v = stripConv(v)
	for _, p := range ps {
		if v == p {
			return true
		}
	}
	return false
}

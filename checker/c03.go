package main

import (
	"go/types"
	"strings"

	"golang.org/x/tools/go/ssa"
)

func init() {
	register(&property{
		Meta: propMeta{
			ID:    "C03",
			Title: "Events are delivered in the order the kernel reported them",
			Explanation: "The structural argument for order preservation, checked on the SSA of the inotify backend: " +
				"(1) exactly one goroutine is started per Watcher (the reader, from the constructor) and none from the reader or the API; every event-send call in production configuration is executed by the reader; " +
				"(2) in the decode loop each iteration runs handler(record i) -> send(result i) -> advance, in this order, once each, the send being a synchronous blocking channel operation (not in a goroutine, timer or inner loop) - shared with C01.1; " +
				"(3) nothing can reorder: no value containing an Event is stored into a slice, map, struct field or array element, appended, or sent on any channel other than Events anywhere in non-test code, no second chan Event is made outside the two constructors, and no sort call lies on the delivery path; " +
				"(4) the channel's buffer size does not enter the logic: no len()/cap() of a channel anywhere in non-test code. " +
				"On the kqueue backend (cross-compiled, freebsd/darwin) the part that carries over is checked: one reader goroutine and all sends from it, no buffering construct, no len/cap of a channel, and (C03.5) a Create synthesised under a Remove of the translated event is sent after that Remove on every path. " +
				"Not decided: the kernel's own order; consumer pacing.",
			Rule:        "obligations per go statement, per event-send site, per loop-order fact, per would-be buffering construct (expected count 0, with positive controls), per len/cap(chan) site",
			Assumptions: []string{"go/types + go/ssa", "a blocking channel send in program order preserves order (Go channel FIFO semantics)"},
			MinObl:      11,
		},
		Configs: tiered(concat(linuxQuick, []Config{{"freebsd", "amd64"}}), concat(linuxAll, kqueueQuick)),
		Run:     runC03,
	})
}

func runC03(p *Program, e *Engine, r *Result, tier string) {
	a := newAn(p, e, r, true)
	if a == nil {
		return
	}
	if strings.Contains(strings.Join(r.Files, " "), "backend_kqueue.go") {
		// kqueue backend: the structural part that carries over - one reader goroutine, all sends from it, nothing that
		// can hold an Event back, and the one place where the reader derives a second event from a kevent keeps the order
		c03Goroutines(a)
		c06Senders(a, "C03.1")
		c03NoBuffering(a)
		c03NoChanLen(a, "C03.4")
		c18RemoveBeforeCreate(a, "C03.5")
		return
	}
	df := decodeFacts(a)
	if df == nil {
		return
	}
	// (1) goroutines and senders
	c03Goroutines(a)
	c06Senders(a, "C03.1")
	// (2) loop order
	c01Loop(a, df, "C03.2")
	c01Send(a, "C03.2")
	// (3) no buffering / reordering of events
	c03NoBuffering(a)
	// (4) no len/cap of channels
	c03NoChanLen(a, "C03.4")
	// (6) no record is withheld in favour of a later notification of the same change (the later one would arrive after
	// events that the kernel reported in between) - shared with C01.3
	c01Drops(a, df, "C03.6")
}

func c03Goroutines(a *An) {
	ro := a.Ro
	// every go statement in the fsnotify package (non-test code)
	n := 0
	for _, fn := range a.P.srcFuncs(a.P.Main) {
		for _, b := range fn.Blocks {
			for _, in := range b.Instrs {
				g, ok := in.(*ssa.Go)
				if !ok {
					continue
				}
				n++
				cal := g.Call.StaticCallee()
				ok2 := fn == ro.Ctor && cal != nil && len(ro.Readers) == 1 && cal == ro.Readers[0]
				a.R.ob("C03.1", "go@"+shortFn(fn), "the only goroutine of a Watcher is the reader started by the constructor (a second sender or an asynchronous send can overtake)", a.P.instrPos(g), ok2,
					sprintf("starts %v", g.Call.Value))
			}
		}
	}
	a.R.ob("C03.1", "go#count", "exactly one go statement in the backend", "-", n == 1, sprintf("%d go statement(s)", n))
	// time.AfterFunc and friends
	for _, fn := range a.P.srcFuncs(a.P.Main) {
		for _, b := range fn.Blocks {
			for _, in := range b.Instrs {
				if call, ok := in.(*ssa.Call); ok {
					if cal := call.Call.StaticCallee(); cal != nil && (asyncCallback[fullName(cal)] || fullName(cal) == "time.NewTimer" || fullName(cal) == "time.After" || fullName(cal) == "time.Tick") {
						a.R.ob("C03.1", "timer@"+shortFn(fn), "no timers/asynchronous callbacks in the backend (delivery is synchronous)", a.P.instrPos(call), false, fullName(cal))
					}
				}
			}
		}
	}
}

// containsEvent: type structurally contains the Event type (not through channels of the constructors).
func containsEvent(ro *Roles, t types.Type, depth int) bool {
	if depth > 6 {
		return false
	}
	if types.Identical(t, ro.Event) {
		return true
	}
	switch u := t.Underlying().(type) {
	case *types.Pointer:
		return containsEvent(ro, u.Elem(), depth+1)
	case *types.Slice:
		return containsEvent(ro, u.Elem(), depth+1)
	case *types.Array:
		return containsEvent(ro, u.Elem(), depth+1)
	case *types.Map:
		return containsEvent(ro, u.Elem(), depth+1) || containsEvent(ro, u.Key(), depth+1)
	case *types.Chan:
		return containsEvent(ro, u.Elem(), depth+1)
	case *types.Struct:
		if n, ok := t.(*types.Named); ok && (n == ro.Watcher || n == ro.Backend) {
			return false
		}
		for i := 0; i < u.NumFields(); i++ {
			if _, isChan := u.Field(i).Type().Underlying().(*types.Chan); isChan {
				continue
			}
			if containsEvent(ro, u.Field(i).Type(), depth+1) {
				return true
			}
		}
	}
	return false
}

// eventBuffering lists constructs in fn that could hold an Event back or reorder it.
func eventBuffering(a *An, fn *ssa.Function) []string {
	ro := a.Ro
	var out []string
	add := func(in ssa.Instruction, what string) { out = append(out, a.P.instrPos(in)+": "+what) }
	for _, b := range fn.Blocks {
		for _, in := range b.Instrs {
			switch x := in.(type) {
			case *ssa.Store:
				if !containsEvent(ro, x.Val.Type(), 0) {
					continue
				}
				// allowed: stores into a local cell of Event type (the `ev` variable) or its fields
				if localAddr(x.Addr) {
					base := x.Addr
					for {
						if fa, ok := base.(*ssa.FieldAddr); ok {
							base = fa.X
							continue
						}
						break
					}
					if al, ok := base.(*ssa.Alloc); ok && types.Identical(deref(al.Type()), ro.Event) {
						continue
					}
					if _, ok := base.(*ssa.IndexAddr); !ok {
						if al, ok := base.(*ssa.Alloc); ok {
							if _, isArr := deref(al.Type()).Underlying().(*types.Array); !isArr {
								// local non-array aggregate holding an Event: e.g. varargs for fmt; treat arrays only as buffers
								continue
							}
						}
					}
				}
				add(in, "store of an Event-carrying value into "+x.Addr.String())
			case *ssa.MapUpdate:
				if containsEvent(ro, x.Value.Type(), 0) {
					add(in, "map update with an Event-carrying value")
				}
			case *ssa.MakeChan:
				if containsEvent(ro, x.Type(), 0) && fn != ro.NewWatcher && fn != ro.NewBuffered {
					add(in, "a second channel of events is made")
				}
			case *ssa.MakeSlice:
				if containsEvent(ro, x.Type(), 0) {
					add(in, "a slice of events is allocated")
				}
			case *ssa.Send:
				if containsEvent(ro, x.X.Type(), 0) {
					if f := fieldOf(x.Chan); f == nil || !containsVar(ro.EventChans, f) {
						add(in, "an Event is sent on a channel other than Events")
					}
				}
			case *ssa.Select:
				for _, s := range x.States {
					if s.Dir == types.SendOnly && containsEvent(ro, s.Send.Type(), 0) {
						if f := fieldOf(s.Chan); f == nil || !containsVar(ro.EventChans, f) {
							add(in, "an Event is sent on a channel other than Events")
						}
					}
				}
			case *ssa.Call:
				if args, ok := isBuiltinCall(x, "append"); ok && len(args) > 0 && containsEvent(ro, args[0].Type(), 0) {
					add(in, "append to a slice of events")
				}
				if cal := x.Call.StaticCallee(); cal != nil {
					if pk := fnPkg(cal); pk != nil && (pk.Pkg.Path() == "sort" || pk.Pkg.Path() == "slices") {
						for _, arg := range x.Call.Args {
							if containsEvent(ro, arg.Type(), 0) {
								add(in, "sort/slices call on events: "+fullName(cal))
							}
						}
					}
				}
			}
		}
	}
	return out
}

func c03NoBuffering(a *An) {
	nFns := 0
	var all []string
	for _, fn := range a.P.srcFuncs(a.P.Main) {
		nFns++
		all = append(all, eventBuffering(a, fn)...)
	}
	a.R.ob("C03.3", "no-event-buffer", "no construct in the backend can hold an Event back or reorder it (slice, map, field, array, append, second channel, sort)", "-", len(all) == 0,
		sprintf("%d functions scanned; found: %s", nFns, fmtList(all)))
}

func c03NoChanLen(a *An, rule string) {
	var all []string
	n := 0
	for _, fn := range a.P.srcFuncs(a.P.Main) {
		for _, b := range fn.Blocks {
			for _, in := range b.Instrs {
				call, ok := in.(*ssa.Call)
				if !ok {
					continue
				}
				bi, ok := call.Call.Value.(*ssa.Builtin)
				if !ok || (bi.Name() != "len" && bi.Name() != "cap") || len(call.Call.Args) != 1 {
					continue
				}
				n++
				if _, isChan := call.Call.Args[0].Type().Underlying().(*types.Chan); isChan {
					all = append(all, a.P.instrPos(in)+": "+bi.Name()+"("+call.Call.Args[0].Type().String()+") in "+shortFn(fn))
				}
			}
		}
	}
	a.R.ob(rule, "no-len-cap-of-channel", "the code never inspects a channel's length or capacity (behaviour cannot depend on the buffer size or its fill level)", "-", len(all) == 0,
		sprintf("%d len/cap call(s) scanned; on channels: %s", n, fmtList(all)))
}

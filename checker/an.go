package main

import (
	"fmt"
	"go/types"
	"sort"
	"strings"

	"golang.org/x/tools/go/ssa"
)

// An bundles what every rule needs for one configuration.
type An struct {
	P     *Program
	E     *Engine
	Ro    *Roles
	R     *Result
	walks map[*ssa.Function]*Walker
	// positive-control mode: extra roots analysed as if they were API methods
	ctlRoots []*ssa.Function
	onlyCtl  bool
}

func newAn(p *Program, e *Engine, r *Result, fold bool) *An {
	if fold {
		e.computeFold()
		for _, f := range e.FoldFacts {
			r.fact("E-F: %s", f)
		}
	}
	ro, err := discoverRoles(p, e)
	if err != nil {
		r.fail("%v", err)
		return nil
	}
	r.fact("backend %s (constructor %s); API %s; reader roots %v; done=%s; locks=%v; tables=%v",
		ro.Backend.Obj().Name(), shortFn(ro.Ctor), strings.Join(apiNames(ro), ","), fnNames(ro.Readers), fieldStr(ro, ro.Done), varNames(ro, ro.Locks), varNames(ro, ro.Tables))
	return &An{P: p, E: e, Ro: ro, R: r, walks: map[*ssa.Function]*Walker{}}
}

func apiNames(ro *Roles) []string {
	var n []string
	for k := range ro.API {
		n = append(n, k)
	}
	sort.Strings(n)
	return n
}

func (a *An) walk(root *ssa.Function) *Walker {
	if w, ok := a.walks[root]; ok {
		return w
	}
	w := a.E.Walk(root, WalkOpts{})
	a.walks[root] = w
	a.R.Sites += len(w.Visits)
	for _, e := range w.Errs {
		a.R.fail("walk of %s: %s", shortFn(root), e)
	}
	return w
}

// roots: the backend's API methods and its reader goroutines.
func (a *An) roots() []*ssa.Function {
	if a.onlyCtl {
		return a.ctlRoots
	}
	out := a.Ro.apiRoots()
	out = append(out, a.Ro.Readers...)
	out = append(out, a.ctlRoots...)
	return out
}

// apiRoots: the API methods (plus control roots in control mode).
func (a *An) apiRoots() []*ssa.Function {
	if a.onlyCtl {
		return a.ctlRoots
	}
	return append(a.Ro.apiRoots(), a.ctlRoots...)
}

func (a *An) require(cond bool, format string, args ...interface{}) bool {
	if !cond {
		a.R.fail("anchor unresolved: "+format, args...)
	}
	return cond
}

// callee of a visit's instruction when it is a call (looking through bindings)
func visitCallee(v *Visit) *ssa.Function {
	switch x := v.Instr.(type) {
	case *ssa.Call:
		return v.Ctx.calleeOf(&x.Call)
	case *ssa.Defer:
		return v.Ctx.calleeOf(&x.Call)
	case *ssa.Go:
		return v.Ctx.calleeOf(&x.Call)
	}
	return nil
}

func callCommon(in ssa.Instruction) *ssa.CallCommon {
	if c, ok := in.(ssa.CallInstruction); ok {
		return c.Common()
	}
	return nil
}

// isBuiltinCall reports a call of builtin name and returns its args.
func isBuiltinCall(in ssa.Instruction, name string) ([]ssa.Value, bool) {
	cc := callCommon(in)
	if cc == nil {
		return nil, false
	}
	if b, ok := cc.Value.(*ssa.Builtin); ok && b.Name() == name {
		return cc.Args, true
	}
	return nil, false
}

// fieldOfPathValue: the struct field a channel/map/mutex value was loaded from, looking through bindings.
func (c *Ctx) fieldOfValue(v ssa.Value) *types.Var {
	rv, _ := c.resolve(v)
	if f := fieldOf(rv); f != nil {
		return f
	}
	return fieldOf(v)
}

func containsVar(l []*types.Var, v *types.Var) bool {
	for _, x := range l {
		if x == v {
			return true
		}
	}
	return false
}

// kernelWait: calls that block until the kernel has something to report.
func kernelWait(cal *ssa.Function) bool {
	switch fullName(cal) {
	case "(*os.File).Read", "golang.org/x/sys/unix.Read", "syscall.Read",
		"golang.org/x/sys/windows.GetQueuedCompletionStatus",
		"(*golang.org/x/sys/unix.EventPort).GetOne", "(*golang.org/x/sys/unix.EventPort).Get":
		return true
	}
	return false
}

func fmtList(l []string) string { return "[" + strings.Join(l, ", ") + "]" }

func uniq(l []string) []string {
	m := map[string]bool{}
	var out []string
	for _, s := range l {
		if !m[s] {
			m[s] = true
			out = append(out, s)
		}
	}
	sort.Strings(out)
	return out
}

func sprintf(f string, a ...interface{}) string { return fmt.Sprintf(f, a...) }

package main

import (
	"go/token"
	"go/types"
	"strings"

	"golang.org/x/tools/go/ssa"
)

func init() {
	register(&property{
		Meta: propMeta{
			ID:    "C13",
			Title: "Close releases every resource the Watcher acquired",
			Explanation: "Acquire/release and termination-shape rules over the SSA of the constructors, Close and the reader. Decided: " +
				"(1) constructor failure paths (inotify; thorough: also kqueue's kqueue()+pipe): on every error return, each descriptor acquired before it has either failed itself or is closed on every path to that return, and no goroutine, os.NewFile or channel-bearing object is created before the last failure return; " +
				"(2) on the first-closer path Close closes the inotify file on every path and it is the only site that closes it (no double close, no leak of the descriptor; closing the inotify instance frees every kernel watch); " +
				"(3) the reader terminates after Close: every cycle of its outer loop passes the closed test, which exits; a read interrupted by the close (os.ErrClosed) exits; every other way round the loop goes through a send function whose failure exits; the only inner loop is the decode loop, whose offset strictly advances (C01.1); its deferred function - issued at entry - closes both channels and the exit channel Close waits for; " +
				"(4) exactly one goroutine is started per Watcher; " +
				"(5) on the cross-compiled kqueue backend (freebsd/amd64 in quick): Close, although it marks the watcher closed first, still reaches close(2) for every watch descriptor through the internal removal, for every path of the table of all watched paths, wakes the reader, and the reader closes kq and its pipe end (= C17.3). " +
				"Assumption A1: closing a non-blocking *os.File wakes a blocked Read with os.ErrClosed. Not decided: descriptor and goroutine counts themselves.",
			Rule:        "one obligation per (error return, earlier acquisition) pair, per closing site, per reader-loop fact, per go statement",
			Assumptions: []string{"go/types + go/ssa", "A1 (Go runtime poller wakes a blocked Read when the file is closed)", "close(2) of the inotify descriptor releases all its kernel watches"},
			MinObl:      11,
		},
		Configs: tiered(concat(linuxQuick, []Config{{"freebsd", "amd64"}}), concat(linuxAll, kqueueQuick, fenQuick, windowsQuick)),
		Run:     runC13,
	})
}

var acquireFns = map[string]string{
	"golang.org/x/sys/unix.InotifyInit1":              "fd",
	"golang.org/x/sys/unix.InotifyInit":               "fd",
	"golang.org/x/sys/unix.Kqueue":                    "fd",
	"golang.org/x/sys/unix.Pipe":                      "pipe",
	"golang.org/x/sys/unix.Pipe2":                     "pipe",
	"golang.org/x/sys/unix.Open":                      "fd",
	"golang.org/x/sys/unix.NewEventPort":              "fd",
	"golang.org/x/sys/windows.CreateIoCompletionPort": "fd",
}

func runC13(p *Program, e *Engine, r *Result, tier string) {
	a := newAn(p, e, r, true)
	if a == nil {
		return
	}
	c13Ctor(a)
	if strings.Contains(strings.Join(r.Files, " "), "backend_kqueue.go") {
		// kqueue: Close releases every watch descriptor and both ends of its machinery (shared with C17.3)
		if kf := kqFind(a); kf != nil {
			computeRemoval(a, kf)
			n0 := len(a.R.Obligations)
			c17Close(a, kf)
			for i := n0; i < len(a.R.Obligations); i++ {
				if a.R.Obligations[i].Rule == "C17.3" {
					a.R.Obligations[i].Rule = "C13.5"
					a.R.Obligations[i].Key = "C13.5|" + strings.TrimPrefix(a.R.Obligations[i].Key, "C17.3|")
				}
			}
		}
	}
	if strings.Contains(strings.Join(r.Files, " "), "backend_inotify.go") {
		c13Close(a)
		c13Reader(a)
	}
	c03Goroutines(a)
	for i := range a.R.Obligations {
		if a.R.Obligations[i].Rule == "C03.1" {
			a.R.Obligations[i].Rule = "C13.4"
			a.R.Obligations[i].Key = "C13.4|" + strings.TrimPrefix(a.R.Obligations[i].Key, "C03.1|")
		}
	}
}

func c13Ctor(a *An) {
	ro := a.Ro
	w := a.walk(ro.Ctor)
	type acq struct {
		v     *Visit
		kind  string
		paths []string // access paths of the acquired descriptors
		fail  func(Lit) bool
		name  string
	}
	var acqs []acq
	for _, v := range w.Visits {
		call, ok := v.Instr.(*ssa.Call)
		if !ok {
			continue
		}
		cal := v.Ctx.calleeOf(&call.Call)
		if cal == nil {
			continue
		}
		kind, isAcq := acquireFns[fullName(cal)]
		if !isAcq {
			continue
		}
		cp := v.Ctx.path(call)
		ac := acq{v: v, kind: kind, name: cal.Name()}
		ac.fail = func(l Lit) bool {
			if l.A.Kind == AkCmp && !l.Neg && l.A.Op == "==" && l.A.K == "c:-1" && (l.A.Subj == cp+"#0" || l.A.Subj == cp) {
				return true
			}
			if l.A.Kind == AkNil && l.Neg && (l.A.Subj == cp+"#1" || l.A.Subj == cp) {
				return true
			}
			return false
		}
		if kind == "fd" {
			ac.paths = []string{stripIDs(cp + "#0")}
		} else {
			base := stripIDs(v.Ctx.path(call.Call.Args[0]))
			base = strings.TrimSuffix(base, "[:]")
			base = strings.TrimPrefix(base, "&")
			ac.paths = []string{base + "[c:0]", base + "[c:1]"}
		}
		acqs = append(acqs, ac)
	}
	if len(acqs) == 0 {
		a.R.fact("constructor %s acquires no descriptor through a known syscall on this configuration", shortFn(ro.Ctor))
		return
	}
	// closes
	type cl struct {
		v    *Visit
		path string
	}
	var closes []cl
	for _, v := range w.Visits {
		if call, ok := v.Instr.(*ssa.Call); ok {
			if cal := v.Ctx.calleeOf(&call.Call); cal != nil && fullName(cal) == "golang.org/x/sys/unix.Close" {
				closes = append(closes, cl{v, stripIDs(v.Ctx.path(call.Call.Args[0]))})
				// closing every element of a slice (a `fail(err, fds...)` helper) closes what was put into that slice
				if ld, ok := stripConv(call.Call.Args[0]).(*ssa.UnOp); ok {
					if ia, ok := ld.X.(*ssa.IndexAddr); ok {
						if _, isSlice := ia.X.Type().Underlying().(*types.Slice); isSlice {
							bv, bc := v.Ctx.resolve(ia.X)
							if ins, complete := sliceInserted(bc, bv); complete {
								// every element is closed once the loop runs (termination assumed): the iteration test is not a
								// condition of "this descriptor gets closed"
								nv := *v
								nv.Cond = dropLoopLits(v.Cond)
								for _, in := range ins {
									closes = append(closes, cl{&nv, stripIDs(in.c.path(in.v))})
								}
							}
						}
					}
				}
			}
		}
	}
	// error returns of the constructor chain (any depth): result of type error that is not constant nil
	n := 0
	for _, v := range w.Visits {
		r, ok := v.Instr.(*ssa.Return)
		if !ok || len(r.Results) == 0 {
			continue
		}
		last := r.Results[len(r.Results)-1]
		if !isErrorType(last.Type()) || isNilConst(last) {
			continue
		}
		// returns inside helper functions that only propagate are examined at their own level
		for _, ac := range acqs {
			var helperCall *ssa.Call // set when the acquisition happened inside a helper called from the returning function
			if !inChainOrSame(ac.v.Ctx, v.Ctx) {
				continue
			}
			if ac.v.Ctx == v.Ctx {
				if !instrDominates(ac.v.Instr, r) {
					continue // the acquisition is not on the way to this return
				}
			} else {
				// acquisition inside a helper called from the returning function: when the return is taken because that
				// helper reported an error, the helper's own error returns (examined at their level) are responsible.
				var site ssa.Instruction
				for c := ac.v.Ctx; c != nil && c.Parent != nil; c = c.Parent {
					if c.Parent == v.Ctx {
						site = c.Site
					}
				}
				call, isCall := site.(*ssa.Call)
				if !isCall || !instrDominates(call, r) {
					continue
				}
				cp := v.Ctx.path(call)
				delegated, _ := v.Cond.everyConj(func(c Conj) bool {
					return c.has(func(l Lit) bool { return l.A.Kind == AkNil && l.Neg && strings.HasPrefix(l.A.Subj, cp) })
				})
				// structurally: the return sits on the non-nil branch of a test of that call's error result (the reaching
				// condition may have been rewritten through the helper's own return conditions)
				if !delegated && onErrorBranchOf(call, r) {
					delegated = true
				}
				if delegated {
					continue
				}
				helperCall = call
			}
			n++
			failed, _ := v.Cond.everyConj(func(c Conj) bool { return c.has(ac.fail) })
			key := sprintf("ctor:%s:error-return-after(%s)", shortFn(r.Parent()), ac.name)
			if failed {
				a.R.ob("C13.1", key+":own-failure", "an error return right after a failed acquisition has nothing of it to release", a.P.instrPos(r), true, ac.name+" itself failed on this path")
				continue
			}
			// every acquired path must be closed before, under a condition implied by the return's
			var missing []string
			if helperCall != nil {
				// the descriptors came back as results of a helper: here they go by other names. Count the closes, before
				// this return and implied by its condition, of distinct values derived from that call's results against
				// the descriptors acquired inside the call.
				cp := stripIDs(v.Ctx.path(helperCall))
				closed := map[string]bool{}
				for _, c := range closes {
					if c.v.Ctx == v.Ctx && c.v.Seq < v.Seq && (strings.HasPrefix(c.path, cp) || fromCallResult(c.v.Instr.(*ssa.Call).Call.Args[0], helperCall)) {
						if h, _, err := implies(v.Cond, c.v.Cond); err == nil && h {
							closed[c.path] = true
						}
					}
				}
				need := 0
				for _, other := range acqs {
					for c := other.v.Ctx; c != nil && c.Parent != nil; c = c.Parent {
						if c.Parent == v.Ctx && c.Site == ssa.Instruction(helperCall) {
							need += len(other.paths)
						}
					}
				}
				okh := len(closed) >= need && need > 0
				a.R.ob("C13.1", key+":released", "every descriptor acquired before a failing step of the constructor is closed on every path to the error return (a failed NewWatcher leaks nothing)",
					a.P.instrPos(r), okh, sprintf("%d descriptor(s) acquired inside %s; %d distinct result-derived value(s) closed before this return: %s", need, tail(cp, 50), len(closed), fmtList(sortedKeys(closed))))
				continue
			}
			for _, pth := range ac.paths {
				okc := false
				for _, c := range closes {
					if c.path == pth && c.v.Seq < v.Seq && c.v.Seq > ac.v.Seq {
						if h, _, err := implies(v.Cond, c.v.Cond); err == nil && h {
							okc = true
						}
					}
				}
				if !okc {
					missing = append(missing, pth)
				}
			}
			a.R.ob("C13.1", key+":released", "every descriptor acquired before a failing step of the constructor is closed on every path to the error return (a failed NewWatcher leaks nothing)",
				a.P.instrPos(r), len(missing) == 0, sprintf("descriptors of %s not closed before this return: %s", ac.name, fmtList(missing)))
		}
		// nothing long-lived created before an error return
		for _, u := range w.Visits {
			if u.Seq >= v.Seq {
				break
			}
			bad := ""
			switch x := u.Instr.(type) {
			case *ssa.Go:
				bad = "goroutine started"
			case *ssa.Call:
				if cal := u.Ctx.calleeOf(&x.Call); cal != nil && fullName(cal) == "os.NewFile" {
					bad = "os.NewFile (finaliser-owned descriptor)"
				}
			}
			if bad != "" && inChainOrSame(u.Ctx, v.Ctx) {
				if h, _, err := implies(v.Cond, u.Cond); err == nil && h {
					a.R.ob("C13.1", sprintf("ctor:%s:before-error-return", shortFn(r.Parent())), "no goroutine or file object is created before a step of the constructor that can still fail", a.P.instrPos(u.Instr), false, bad+" before the error return at "+a.P.instrPos(r))
				}
			}
		}
	}
	if n == 0 {
		a.R.ob("C13.1", "ctor:error-returns", "the constructor has an error return after its first acquisition (so that failure is reported)", a.P.pos(ro.Ctor.Pos()), false, "no error return found after an acquisition")
	}
}

// dropLoopLits removes the literals that only say "the range loop is at some iteration".
func dropLoopLits(d DNF) DNF {
	var out DNF
	for _, c := range d {
		nc := Conj{}
		for k, l := range c {
			if l.A.Kind == AkCmp && strings.Contains(l.A.Subj, "rangeindex") || l.A.Kind == AkOpaque && strings.Contains(l.A.Subj, "next(range(") {
				continue
			}
			nc[k] = l
		}
		out = append(out, nc)
	}
	return out
}

// fromCallResult: v is (an element of) a local variable that is assigned a result of call.
func fromCallResult(v ssa.Value, call *ssa.Call) bool {
	v = stripConv(v)
	for i := 0; i < 4; i++ {
		switch x := v.(type) {
		case *ssa.UnOp:
			v = x.X
		case *ssa.IndexAddr:
			v = x.X
		case *ssa.FieldAddr:
			v = x.X
		case *ssa.Extract:
			return x.Tuple == ssa.Value(call)
		case *ssa.Alloc:
			for _, st := range cellStores(x) {
				if ex, ok := stripConv(st.Val).(*ssa.Extract); ok && ex.Tuple == ssa.Value(call) {
					return true
				}
			}
			return false
		default:
			return false
		}
	}
	return false
}

// onErrorBranchOf: instruction at is dominated by the non-nil successor of a test `err != nil` / `err == nil` where err is
// a result of call.
func onErrorBranchOf(call *ssa.Call, at ssa.Instruction) bool {
	for b := at.Block(); b != nil; b = b.Idom() {
		p := b.Idom()
		if p == nil || len(p.Instrs) == 0 {
			continue
		}
		iff, ok := p.Instrs[len(p.Instrs)-1].(*ssa.If)
		if !ok {
			continue
		}
		bin, ok := iff.Cond.(*ssa.BinOp)
		if !ok || (bin.Op != token.EQL && bin.Op != token.NEQ) {
			continue
		}
		var subj ssa.Value
		switch {
		case isNilConst(bin.Y):
			subj = bin.X
		case isNilConst(bin.X):
			subj = bin.Y
		default:
			continue
		}
		src := subj
		if ex, ok := subj.(*ssa.Extract); ok {
			src = ex.Tuple
		}
		if src != ssa.Value(call) || !isErrorType(subj.Type()) {
			continue
		}
		errIdx := 0
		if bin.Op == token.EQL {
			errIdx = 1
		}
		if s := p.Succs[errIdx]; s == b || s.Dominates(b) {
			return true
		}
	}
	return false
}

func inChainOrSame(inner, outer *Ctx) bool {
	// the acquisition happened in `inner`; the return is in `outer`: related if one is an ancestor of the other
	for c := inner; c != nil; c = c.Parent {
		if c == outer {
			return true
		}
	}
	for c := outer; c != nil; c = c.Parent {
		if c == inner {
			return true
		}
	}
	return false
}

func c13Close(a *An) {
	ro := a.Ro
	c06CloseOrder(a)
	for i := range a.R.Obligations {
		if a.R.Obligations[i].Rule == "C06.2" {
			a.R.Obligations[i].Rule = "C13.2"
			a.R.Obligations[i].Key = "C13.2|" + strings.TrimPrefix(a.R.Obligations[i].Key, "C06.2|")
		}
	}
	// closing sites of the notification file / descriptor across the package
	var sites []string
	for _, fn := range a.P.srcFuncs(a.P.Main) {
		for _, b := range fn.Blocks {
			for _, in := range b.Instrs {
				call, ok := in.(*ssa.Call)
				if !ok {
					continue
				}
				cal := call.Call.StaticCallee()
				if cal == nil || len(call.Call.Args) == 0 {
					continue
				}
				fnm := fullName(cal)
				if fnm != "(*os.File).Close" && fnm != "golang.org/x/sys/unix.Close" && fnm != "syscall.Close" {
					continue
				}
				f := fieldOf(call.Call.Args[0])
				if f != nil && ro.StructOf[f] == ro.Backend {
					sites = append(sites, a.P.instrPos(call)+" "+fnm+"("+fieldStr(ro, f)+") in "+shortFn(fn))
				}
			}
		}
	}
	a.R.ob("C13.2", "fd-close-sites", "the notification descriptor is closed at exactly one site (in Close): never twice, never by another path", "-", len(sites) == 1, fmtList(sites))
}

func c13Reader(a *An) {
	ro := a.Ro
	df := decodeFacts(a)
	if df == nil {
		return
	}
	rd := df.Reader
	// outer loop: the loop not contained in another
	var outer *Loop
	for _, l := range df.ReaderLoops {
		contained := false
		for _, m := range df.ReaderLoops {
			if m != l && m.Blocks[l.Header] {
				contained = true
			}
		}
		if !contained {
			if outer != nil {
				a.R.fail("reader has more than one top-level loop (unrecognised shape)")
				return
			}
			outer = l
		}
	}
	if outer == nil {
		a.R.fail("anchor unresolved: reader's outer loop")
		return
	}
	c := a.E.rootCtx(rd)
	// (a) a closed test that dominates every latch and exits on true
	closedOK := false
	where := ""
	for b := range outer.Blocks {
		iff, ok := b.Instrs[len(b.Instrs)-1].(*ssa.If)
		if !ok {
			continue
		}
		l := c.lit(iff.Cond)
		t, closed := ro.closedLit(l)
		if !t {
			continue
		}
		// the successor taken when the watcher is closed
		exitIdx := 0
		if !closed {
			exitIdx = 1
		}
		if outer.Blocks[b.Succs[exitIdx]] {
			continue
		}
		dom := true
		for _, lt := range outer.Latches {
			if !b.Dominates(lt) {
				dom = false
			}
		}
		if dom {
			closedOK = true
			where = a.P.instrPos(iff)
		}
	}
	a.R.ob("C13.3", "reader:closed-test-every-cycle", "every cycle of the reader's outer loop passes the closed test, and a closed watcher leaves the loop", where, closedOK, "")
	// (b) an exit on os.ErrClosed of the read error
	errClosedExit := false
	var exits []string
	nonClosedExits := 0
	rconds, cerr := c.conds()
	if cerr != nil {
		a.R.fail("reader conditions: %v", cerr)
		return
	}
	for _, ex := range outer.exits() {
		// the edge's own condition, with results of simple helpers expressed through their return conditions
		ed := c.edgeCond(rconds, ex.From, ex.SuccIdx, dnfTrue())
		if ed.isTrue() {
			nonClosedExits++
			exits = append(exits, "unconditional exit at "+a.P.instrPos(ex.From.Instrs[len(ex.From.Instrs)-1]))
			continue
		}
		for _, cj := range ed {
			reason := ""
			for _, l := range cj {
				switch {
				case l.A.Kind == AkErrIs && !l.Neg && strings.HasSuffix(stripIDs(l.A.K), "os.ErrClosed"):
					errClosedExit = true
					reason = "errors.Is(err, os.ErrClosed)"
				case func() bool { t, closed := ro.closedLit(l); return t && closed }():
					reason = "closed"
				case l.A.Kind == AkPred && l.A.Callee != nil && (ro.isSendError(l.A.Callee) || ro.isSendEvent(l.A.Callee)) && l.Neg:
					reason = "a send function failed"
				case l.A.Kind == AkPred && l.A.Callee != nil && l.Neg && len(df.Chain) > 0 && l.A.Callee == df.Chain[0].Call.StaticCallee():
					// the helper holding the decode loop reported that a send failed (its own exits are checked by C13.3d)
					reason = "the decode helper stopped"
				}
			}
			if reason == "" {
				nonClosedExits++
				reason = "other: " + stripCallArgs(stripIDs(cj.String()))
			}
			exits = append(exits, reason)
		}
	}
	a.R.ob("C13.3", "reader:exits-only-when-closed", "the reader leaves its loop only because the watcher was closed (closed test, os.ErrClosed from the interrupted read, a send function reporting 'closed'): any other exit ends delivery and closes the channels while the Watcher is still open",
		a.P.pos(rd.Pos()), nonClosedExits == 0, "loop exits: "+fmtList(uniq(exits)))
	a.R.ob("C13.3", "reader:exits-on-ErrClosed", "a read interrupted by Close (os.ErrClosed) makes the reader exit instead of retrying", a.P.pos(rd.Pos()), errClosedExit, "loop exits: "+fmtList(uniq(exits)))
	// (c) every latch of the outer loop that does not come from the decode loop's header is preceded by a send whose failure exits
	contOK := true
	var cw []string
	for _, lt := range outer.Latches {
		if df.Loop != nil && df.LoopFn == rd && (df.Loop.Blocks[lt] || lt == df.Loop.Header) {
			continue
		}
		// the latch block (or a dominator inside the loop) must be the success successor of a send-function test
		found := false
		for b := lt; b != nil && outer.Blocks[b]; b = b.Idom() {
			for _, pr := range b.Preds {
				if len(pr.Instrs) == 0 {
					continue
				}
				if _, ok := pr.Instrs[len(pr.Instrs)-1].(*ssa.If); ok {
					for si, sb := range pr.Succs {
						if sb != b {
							continue
						}
						ed := c.edgeCond(rconds, pr, si, dnfTrue())
						if ed.isTrue() || ed.isFalse() {
							continue
						}
						all, _ := ed.everyConj(func(cj Conj) bool {
							return cj.has(func(l Lit) bool {
								if l.A.Kind != AkPred || l.A.Callee == nil || l.Neg {
									return false
								}
								if ro.isSendError(l.A.Callee) || ro.isSendEvent(l.A.Callee) {
									return true
								}
								// came round after the decode helper returned
								return len(df.Chain) > 0 && l.A.Callee == df.Chain[0].Call.StaticCallee()
							})
						})
						if all {
							found = true
						}
					}
				}
			}
			if found || b == outer.Header {
				break
			}
		}
		if !found {
			contOK = false
			cw = append(cw, sprintf("block %d loops back without a send whose failure exits", lt.Index))
		}
	}
	a.R.ob("C13.3", "reader:continue-only-after-send", "the reader goes round its loop without decoding only after a send function succeeded (a closed watcher cannot spin)", a.P.pos(rd.Pos()), contOK, strings.Join(cw, "; "))
	// (d) inner loops: only the decode loop
	inner := 0
	for _, l := range df.ReaderLoops {
		if l != outer {
			inner++
		}
	}
	if df.LoopFn != rd {
		inner += len(df.Loops)
	}
	a.R.ob("C13.3", "reader:only-decode-loop-inside", "the only loop inside the reader's outer loop is the decode loop (whose offset strictly advances, C01.1)", a.P.pos(rd.Pos()), inner == 1 && df.Loop != outer, sprintf("%d inner loop(s)", inner))
	c01Loop(a, df, "C13.3d")
	// (e) the deferred function closes the exit channel Close waits for
	cl := ro.API["Close"]
	var waited *types.Var
	for _, v := range a.walk(cl).Visits {
		if u, ok := v.Instr.(*ssa.UnOp); ok {
			if _, blocking := blockingOp(v.Ctx, u); blocking {
				waited = v.Ctx.fieldOfValue(u.X)
			}
		}
	}
	closedInDefer := false
	for _, v := range a.walk(rd).Visits {
		if args, ok := isBuiltinCall(v.Instr, "close"); ok && v.InDefer && len(args) == 1 && waited != nil && v.Ctx.fieldOfValue(args[0]) == waited {
			closedInDefer = true
		}
	}
	if waited != nil {
		a.R.ob("C13.3", "reader:signals-exit", "the reader's deferred function closes the channel Close waits on", a.P.pos(rd.Pos()), closedInDefer, "Close waits on "+fieldStr(ro, waited))
	}
	_ = nonClosedExits
}

package main

// Interprocedural walk (inlining of module-local callees and synchronous callbacks) with
// reaching conditions and must/may locksets (engines E-A, E-B).

import (
	"fmt"
	"go/token"
	"go/types"
	"sort"
	"strings"

	"golang.org/x/tools/go/ssa"
)

type LockSet map[string]bool

func (l LockSet) clone() LockSet {
	n := LockSet{}
	for k := range l {
		n[k] = true
	}
	return n
}
func (l LockSet) list() []string {
	ks := make([]string, 0, len(l))
	for k := range l {
		ks = append(ks, k)
	}
	sort.Strings(ks)
	return ks
}
func (l LockSet) String() string { return "{" + strings.Join(l.list(), ",") + "}" }

func intersect(a, b LockSet) LockSet {
	n := LockSet{}
	for k := range a {
		if b[k] {
			n[k] = true
		}
	}
	return n
}
func union(a, b LockSet) LockSet {
	n := a.clone()
	for k := range b {
		n[k] = true
	}
	return n
}
func sameSet(a, b LockSet) bool {
	if len(a) != len(b) {
		return false
	}
	for k := range a {
		if !b[k] {
			return false
		}
	}
	return true
}

// lockState: Region maps a held lock to the sequence number of the acquisition that started the
// current critical section (-1 when paths with different acquisitions merge).
type lockState struct {
	Must, May LockSet
	Region    map[string]int
}

func (s lockState) clone() lockState {
	r := map[string]int{}
	for k, v := range s.Region {
		r[k] = v
	}
	return lockState{s.Must.clone(), s.May.clone(), r}
}

func mergeRegion(a, b map[string]int) map[string]int {
	r := map[string]int{}
	for k, v := range a {
		if w, ok := b[k]; ok {
			if v == w {
				r[k] = v
			} else {
				r[k] = -1
			}
		}
	}
	return r
}

// Visit is one instruction seen in one calling context.
type Visit struct {
	Ctx     *Ctx
	Instr   ssa.Instruction
	Cond    DNF // reaching condition in terms of the root (conjunction along the call chain)
	Local   DNF // reaching condition inside Ctx.Fn only
	Must    LockSet
	May     LockSet
	Region  map[string]int
	InDefer bool
	Seq     int
}

type WalkOpts struct {
	MaxDepth int
	// NoCond disables condition computation (cheaper; Cond = true)
	NoCond bool
	// Pkg: package whose functions are inlined (default: the fsnotify package)
	Pkg *ssa.Package
	// Stop returns true for callees that must not be inlined
	Stop func(fn *ssa.Function) bool
}

type Walker struct {
	E       *Engine
	Opts    WalkOpts
	Visits  []*Visit
	Notes   []string // recursion cuts, depth cuts
	Errs    []string // undecided
	GoRoots []GoRoot
	seq     int
}

type GoRoot struct {
	Fn   *ssa.Function
	Site *ssa.Go
	Ctx  *Ctx
}

func (e *Engine) Walk(root *ssa.Function, opts WalkOpts) *Walker {
	if opts.MaxDepth == 0 {
		opts.MaxDepth = 12
	}
	w := &Walker{E: e, Opts: opts}
	ctx := e.rootCtx(root)
	w.walkFn(ctx, dnfTrue(), lockState{LockSet{}, LockSet{}, map[string]int{}}, false)
	return w
}

// mutex method classification
func lockOp(cal *ssa.Function) (acquire bool, release bool) {
	if cal == nil || cal.Signature.Recv() == nil {
		return
	}
	rt := deref(cal.Signature.Recv().Type())
	n, ok := rt.(*types.Named)
	if !ok || n.Obj().Pkg() == nil || n.Obj().Pkg().Path() != "sync" {
		return
	}
	if n.Obj().Name() != "Mutex" && n.Obj().Name() != "RWMutex" {
		return
	}
	switch cal.Name() {
	case "Lock", "RLock":
		return true, false
	case "Unlock", "RUnlock":
		return false, true
	}
	return
}

func (w *Walker) note(format string, a ...interface{}) {
	s := fmt.Sprintf(format, a...)
	for _, n := range w.Notes {
		if n == s {
			return
		}
	}
	w.Notes = append(w.Notes, s)
}

// asyncCallback lists external functions whose function-typed argument runs later on another goroutine.
var asyncCallback = map[string]bool{"time.AfterFunc": true}

// walkFn walks c.Fn with entry condition/lockstate and returns the exit lock state.
func (w *Walker) walkFn(c *Ctx, entry DNF, ls lockState, inDefer bool) lockState {
	fn := c.Fn
	if fn.Blocks == nil {
		return ls
	}
	var conds map[*ssa.BasicBlock]DNF
	if !w.Opts.NoCond {
		var err error
		conds, err = c.conds()
		if err != nil {
			w.Errs = append(w.Errs, err.Error())
			conds = nil
		}
	}
	order := rpo(fn)
	in := map[*ssa.BasicBlock]lockState{}
	out := map[*ssa.BasicBlock]lockState{}
	var exit *lockState
	type deferred struct {
		d   *ssa.Defer
		ctx *Ctx
	}
	// Deferred calls are collected flow-insensitively per function (sound for the repository's idiom:
	// defers are issued unconditionally at function entry; a conditional defer is reported as a note).
	var defers []*ssa.Defer
	for _, b := range order {
		for _, insn := range b.Instrs {
			if d, ok := insn.(*ssa.Defer); ok {
				defers = append(defers, d)
				if b != fn.Blocks[0] {
					w.note("conditional defer in %s (treated as always issued)", shortFn(fn))
				}
			}
		}
	}
	for i, b := range order {
		var st lockState
		if i == 0 {
			st = ls.clone()
		} else {
			first := true
			for _, p := range b.Preds {
				if isBackEdge(p, b) {
					continue
				}
				po, ok := out[p]
				if !ok {
					continue
				}
				if first {
					st = po.clone()
					first = false
				} else {
					st = lockState{intersect(st.Must, po.Must), union(st.May, po.May), mergeRegion(st.Region, po.Region)}
				}
			}
			if first {
				// block only reachable via back edges or unreachable
				st = lockState{LockSet{}, LockSet{}, map[string]int{}}
			}
		}
		in[b] = st.clone()
		bc := dnfTrue()
		if conds != nil {
			bc = conds[b]
		}
		// statically dead block (folded condition)
		if conds != nil && bc.isFalse() {
			out[b] = st
			delete(out, b) // do not propagate from dead blocks
			continue
		}
		full := entry
		if conds != nil {
			full = w.safeAnd(entry, bc)
		}
		for _, insn := range b.Instrs {
			w.seq++
			v := &Visit{Ctx: c, Instr: insn, Cond: full, Local: bc, Must: st.Must.clone(), May: st.May.clone(), Region: st.Region, InDefer: inDefer, Seq: w.seq}
			w.Visits = append(w.Visits, v)
			switch x := insn.(type) {
			case *ssa.Call:
				st = w.doCall(c, x, &x.Call, full, st, inDefer)
			case *ssa.Go:
				if cal := c.calleeOf(&x.Call); cal != nil {
					w.GoRoots = append(w.GoRoots, GoRoot{cal, x, c})
				}
			case *ssa.Defer:
				// lock bookkeeping for `defer mu.Unlock()`: nothing now; released at RunDefers.
			case *ssa.RunDefers:
				for k := len(defers) - 1; k >= 0; k-- {
					d := defers[k]
					w.seq++
					st = w.doCall(c, d, &d.Call, full, st, true)
				}
			case *ssa.Return:
				if exit == nil {
					e := st.clone()
					exit = &e
				} else {
					e := lockState{intersect(exit.Must, st.Must), union(exit.May, st.May), mergeRegion(exit.Region, st.Region)}
					exit = &e
				}
			}
		}
		out[b] = st
	}
	// back-edge consistency
	for _, b := range order {
		for _, s := range b.Succs {
			if isBackEdge(b, s) {
				o, ok1 := out[b]
				i2, ok2 := in[s]
				if ok1 && ok2 && (!sameSet(o.Must, i2.Must) || !sameSet(o.May, i2.May)) {
					pos := ""
					if len(b.Instrs) > 0 {
						pos = c.E.P.instrPos(b.Instrs[len(b.Instrs)-1])
					}
					w.Errs = append(w.Errs, fmt.Sprintf("unbalanced locking in a loop of %s: at the back edge %s the locks held are must=%s may=%s but at loop entry must=%s may=%s (a path through the loop body acquires without releasing, or releases without acquiring): undecided",
						shortFn(fn), pos, o.Must, o.May, i2.Must, i2.May))
				}
			}
		}
	}
	if exit == nil {
		return ls
	}
	return *exit
}

func (w *Walker) safeAnd(a, b DNF) (r DNF) {
	defer func() {
		if x := recover(); x != nil {
			if _, ok := x.(dnfOverflow); ok {
				w.Errs = append(w.Errs, "condition product overflow (undecided)")
				r = a
				return
			}
			panic(x)
		}
	}()
	return a.and(b)
}

func (w *Walker) doCall(c *Ctx, site ssa.Instruction, cc *ssa.CallCommon, cond DNF, st lockState, inDefer bool) lockState {
	if cc.IsInvoke() {
		// interface call: resolve backend-interface methods via the call graph? Left opaque here;
		// rules that need it walk the concrete methods as separate roots.
		return st
	}
	cal := c.calleeOf(cc)
	if cal == nil {
		return st
	}
	if acq, rel := lockOp(cal); acq || rel {
		if len(cc.Args) > 0 {
			id := c.path(cc.Args[0])
			id = strings.TrimPrefix(id, "&")
			n := st.clone()
			if acq {
				n.Must[id] = true
				n.May[id] = true
				n.Region[id] = w.seq
			} else {
				delete(n.Must, id)
				delete(n.May, id)
				delete(n.Region, id)
			}
			return n
		}
		return st
	}
	if !w.inlinable(cal) {
		// external: synchronous callbacks among the arguments
		if asyncCallback[fullName(cal)] {
			return st
		}
		for _, a := range cc.Args {
			if _, ok := a.Type().Underlying().(*types.Signature); !ok {
				continue
			}
			rv, rc := c.resolve(a)
			var cb *ssa.Function
			var mc *ssa.MakeClosure
			switch f := rv.(type) {
			case *ssa.Function:
				cb = f
			case *ssa.MakeClosure:
				cb = f.Fn.(*ssa.Function)
				mc = f
			}
			if cb == nil || !w.E.P.inModule(cb) {
				continue
			}
			if c.inChain(cb) || c.Depth >= w.Opts.MaxDepth {
				w.note("callback %s not inlined at depth %d", shortFn(cb), c.Depth)
				continue
			}
			cc2 := c.child(cb, site)
			cc2.Callback = true
			if mc != nil {
				for i, fv := range cb.FreeVars {
					if i < len(mc.Bindings) {
						cc2.Bind[fv] = Bound{mc.Bindings[i], rc}
					}
				}
			}
			// the callback may run zero or more times: lock state must be unchanged by it
			after := w.walkFn(cc2, cond, st, inDefer)
			if !sameSet(after.Must, st.Must) || !sameSet(after.May, st.May) {
				w.Errs = append(w.Errs, fmt.Sprintf("callback %s changes the lock state: undecided", shortFn(cb)))
			}
		}
		return st
	}
	if w.Opts.Stop != nil && w.Opts.Stop(cal) {
		return st
	}
	if c.inChain(cal) {
		w.note("recursion cut at %s (chain %s)", shortFn(cal), c.chain())
		return st
	}
	if c.Depth >= w.Opts.MaxDepth {
		w.note("depth bound %d reached at %s", w.Opts.MaxDepth, shortFn(cal))
		return st
	}
	cc2 := c.calleeCtx(site, cc)
	if cc2 == nil {
		return st
	}
	return w.walkFn(cc2, cond, st, inDefer)
}

// inlinable: functions of the fsnotify package itself (and internal/ztest when it is the subject).
// The module's `internal` package (debug printers, syscall shims) is treated as external.
func (w *Walker) inlinable(f *ssa.Function) bool {
	if f.Blocks == nil {
		return false
	}
	pk := fnPkg(f)
	if pk == nil {
		return false
	}
	if w.Opts.Pkg != nil {
		return pk == w.Opts.Pkg
	}
	return pk == w.E.P.Main
}

// ---------------------------------------------------------------------------
// Classification helpers used by the rules.

// blockingOp describes instr if it may block indefinitely waiting for another goroutine.
func blockingOp(c *Ctx, in ssa.Instruction) (string, bool) {
	switch x := in.(type) {
	case *ssa.Send:
		return "send on " + c.path(x.Chan), true
	case *ssa.UnOp:
		if x.Op == token.ARROW {
			return "receive from " + c.path(x.X), true
		}
	case *ssa.Select:
		if x.Blocking {
			var ss []string
			for _, s := range x.States {
				d := "recv "
				if s.Dir == types.SendOnly {
					d = "send "
				}
				ss = append(ss, d+c.path(s.Chan))
			}
			return "blocking select{" + strings.Join(ss, "; ") + "}", true
		}
	case *ssa.Call:
		if cal := c.calleeOf(&x.Call); cal != nil {
			switch fullName(cal) {
			case "(*sync.WaitGroup).Wait", "(*sync.Cond).Wait", "time.Sleep":
				return "call " + fullName(cal), true
			}
		}
	}
	return "", false
}

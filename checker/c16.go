package main

import (
	"go/constant"
	"go/token"
	"go/types"
	"sort"
	"strings"

	"golang.org/x/tools/go/ssa"
)

func init() {
	register(&property{
		Meta: propMeta{
			ID:    "C16",
			Title: "Op and Event predicates and renderings are total, exact and unambiguous",
			Explanation: "Shape rules over the SSA of fsnotify.go (identical on every configuration; thorough checks one configuration per backend). Decided for all 2^32 Op values because the accepted forms are closed: " +
				"(1) Op.Has returns exactly (o & h) != 0 and Event.Has returns Op.Has applied to the event's Op and its argument; " +
				"(2) Op.String: every write to the builder is a constant token guarded by exactly one single-bit test of the receiver; the guarded bits are exactly the nine defined Op constants, once each; tokens are non-empty, pairwise distinct, all start with the separator '|' which occurs nowhere else in a token, and the result strips exactly that first byte; the empty case returns the literal \"[no events]\", which is not a join of tokens; no other guard exists, so undefined bits never alter the text and distinct sets of defined operations render differently; " +
				"(3) Event.String: both format strings are constants, the name and old-name operands are rendered with %q, the operation operand is e.Op.String(), and the old name is printed exactly when renamedFrom is non-empty. " +
				"Not decided: fmt's and strings.Builder's own behaviour (trusted).",
			Rule:        "one obligation per accepted-form fact; the token table has one row per defined Op constant",
			Assumptions: []string{"go/types + go/ssa", "fmt.Sprintf and strings.Builder behave as documented"},
			MinObl:      6,
		},
		Configs: tiered(linuxQuick, allBackendsQ),
		Run:     runC16,
	})
}

func runC16(p *Program, e *Engine, r *Result, tier string) {
	// roles are not needed beyond Event/Op; tolerate backends without a constructor
	scope := p.MainTy.Scope()
	opObj, evObj := scope.Lookup("Op"), scope.Lookup("Event")
	if opObj == nil || evObj == nil {
		r.fail("anchor unresolved: public types Op / Event")
		return
	}
	opT := opObj.Type().(*types.Named)
	evT := evObj.Type().(*types.Named)
	a := &An{P: p, E: e, R: r, walks: map[*ssa.Function]*Walker{}, Ro: &Roles{P: p, Op: opT, Event: evT, StructOf: map[*types.Var]*types.Named{}}}
	opHas, evHas := p.method(opT, "Has"), p.method(evT, "Has")
	opStr, evStr := p.method(opT, "String"), p.method(evT, "String")
	if opHas == nil || evHas == nil || opStr == nil || evStr == nil {
		r.fail("anchor unresolved: methods Op.Has, Event.Has, Op.String, Event.String")
		return
	}
	c16Has(a, opHas, evHas)
	c16OpString(a, opStr)
	c16EventString(a, evStr, opStr)
}

func singleReturn(fn *ssa.Function) *ssa.Return {
	var ret *ssa.Return
	for _, b := range fn.Blocks {
		if r, ok := b.Instrs[len(b.Instrs)-1].(*ssa.Return); ok {
			if ret != nil {
				return nil
			}
			ret = r
		}
	}
	return ret
}

// intersects recognises  (x & y) != 0  /  (x & y) > 0  and returns x, y.
func intersects(v ssa.Value) (ssa.Value, ssa.Value, bool) {
	b, ok := v.(*ssa.BinOp)
	if !ok || (b.Op != token.NEQ && b.Op != token.GTR) {
		return nil, nil, false
	}
	var and *ssa.BinOp
	if k, isK := constUint(b.Y); isK && k == 0 {
		and, _ = b.X.(*ssa.BinOp)
	} else if k, isK := constUint(b.X); isK && k == 0 && b.Op == token.NEQ {
		and, _ = b.Y.(*ssa.BinOp)
	}
	if and == nil || and.Op != token.AND {
		return nil, nil, false
	}
	return and.X, and.Y, true
}

func c16Has(a *An, opHas, evHas *ssa.Function) {
	ok := false
	wit := "body is not a single `return o&h != 0`"
	if r := singleReturn(opHas); r != nil && len(opHas.Blocks) == 1 && len(r.Results) == 1 && len(opHas.Params) == 2 {
		if x, y, isI := intersects(r.Results[0]); isI {
			p0, p1 := ssa.Value(opHas.Params[0]), ssa.Value(opHas.Params[1])
			if (x == p0 && y == p1) || (x == p1 && y == p0) {
				ok, wit = true, "return (o & h) != 0"
			}
		}
	}
	a.R.Sites += len(opHas.Blocks)
	a.R.ob("C16.1", "Op.Has", "Op.Has reports true exactly when the two operation sets intersect", a.P.pos(opHas.Pos()), ok, wit)
	ok2 := false
	wit2 := "body is neither `return e.Op.Has(op)` nor `return e.Op&op != 0`"
	if r := singleReturn(evHas); r != nil && len(evHas.Blocks) == 1 && len(r.Results) == 1 && len(evHas.Params) == 2 {
		c := a.E.rootCtx(evHas)
		isRecvOp := func(v ssa.Value) bool {
			return strings.HasPrefix(c.path(v), "recv.") && types.Identical(v.Type(), a.Ro.Op)
		}
		if call, isC := r.Results[0].(*ssa.Call); isC && call.Call.StaticCallee() == opHas && len(call.Call.Args) == 2 {
			if isRecvOp(call.Call.Args[0]) && call.Call.Args[1] == ssa.Value(evHas.Params[1]) && ok {
				ok2, wit2 = true, "return Op.Has("+c.path(call.Call.Args[0])+", op)"
			}
		} else if x, y, isI := intersects(r.Results[0]); isI {
			p1 := ssa.Value(evHas.Params[1])
			if (isRecvOp(x) && y == p1) || (isRecvOp(y) && x == p1) {
				ok2, wit2 = true, "return (e.Op & op) != 0"
			}
		}
	}
	a.R.ob("C16.1", "Event.Has", "Event.Has agrees with Op.Has on the event's operation set", a.P.pos(evHas.Pos()), ok2, wit2)
}

// opTokenName: the text under which an Op constant is printed.
func opTokenName(constName string) string {
	n := strings.TrimPrefix(constName, "xUnportable")
	var b strings.Builder
	for i, r := range n {
		if i > 0 && r >= 'A' && r <= 'Z' {
			b.WriteByte('_')
		}
		b.WriteRune(r)
	}
	return strings.ToUpper(b.String())
}

func c16OpString(a *An, opStr *ssa.Function) {
	w := a.E.Walk(opStr, WalkOpts{})
	a.R.Sites += len(w.Visits)
	opN, _ := opNames(a)
	type row2 = struct {
		bit   uint64
		token string
		pos   string
	}
	type row = row2
	var rows []row
	var probs []string
	var builder ssa.Value
	// builder writes, grouped: consecutive writes under one and the same condition form one token
	type piece struct {
		v     *Visit
		konst string      // constant text
		g     *ssa.Global // or: a field of a row of a constant table
		field string
	}
	var groups [][]piece
	lastKey := ""
	for _, v := range w.Visits {
		call, ok := v.Instr.(*ssa.Call)
		if !ok {
			continue
		}
		cal := call.Call.StaticCallee()
		if cal == nil {
			continue
		}
		fn := fullName(cal)
		if !strings.HasPrefix(fn, "(*strings.Builder).Write") {
			continue
		}
		if builder == nil {
			builder = call.Call.Args[0]
		}
		pc := piece{v: v}
		arg, _ := v.Ctx.resolve(call.Call.Args[1]) // a local closure `add(op, name)` passes the constants as arguments
		switch fn {
		case "(*strings.Builder).WriteString":
			if k, isK := arg.(*ssa.Const); isK && k.Value != nil && k.Value.Kind() == constant.String {
				pc.konst = constant.StringVal(k.Value)
			} else if g, f, isT := tableElem(a.P, v.Ctx.path(arg)); isT {
				pc.g, pc.field = g, f
			} else {
				probs = append(probs, "non-constant token at "+a.P.instrPos(call))
				continue
			}
		case "(*strings.Builder).WriteByte", "(*strings.Builder).WriteRune":
			k, isK := constUint(arg)
			if !isK || k == 0 || k > 127 {
				probs = append(probs, "non-constant byte written at "+a.P.instrPos(call))
				continue
			}
			pc.konst = string(rune(k))
		default:
			probs = append(probs, "builder written by "+fn+" at "+a.P.instrPos(call))
			continue
		}
		key := v.Cond.String()
		if key == lastKey && len(groups) > 0 && groups[len(groups)-1][0].v.Instr.Block() == call.Block() {
			groups[len(groups)-1] = append(groups[len(groups)-1], pc)
		} else {
			groups = append(groups, []piece{pc})
		}
		lastKey = key
	}
	// third joining idiom: "write the separator unless the builder is still empty, then the name" - a group that is the
	// lone separator under (the guard of the name that follows) AND (builder.Len() > 0) gives that name its separator;
	// the text is then returned whole (no leading separator to strip).
	isLenPos := func(l Lit) bool {
		if l.A.Kind != AkCmp || l.A.K != "c:0" || !strings.Contains(l.A.Subj, "(*strings.Builder).Len(") {
			return false
		}
		if l.Neg {
			return l.A.Op == "<=" || l.A.Op == "=="
		}
		return l.A.Op == ">" || l.A.Op == "!="
	}
	sepBefore := map[int]bool{} // index (in the filtered list) of the groups preceded by a conditional separator
	{
		var kept [][]piece
		pendingSep := ""
		havePending := false
		for _, grp := range groups {
			v := grp[0].v
			if len(grp) == 1 && grp[0].g == nil && grp[0].konst == "|" && len(v.Cond) == 1 {
				rest := Conj{}
				nLen := 0
				for k, l := range v.Cond[0] {
					if isLenPos(l) {
						nLen++
						continue
					}
					rest[k] = l
				}
				if nLen == 1 {
					if havePending {
						probs = append(probs, "two separators in a row at "+a.P.instrPos(v.Instr))
					}
					pendingSep, havePending = rest.String(), true
					continue
				}
			}
			if havePending {
				if len(v.Cond) == 1 && v.Cond[0].String() == pendingSep {
					sepBefore[len(kept)] = true
				} else {
					probs = append(probs, sprintf("the separator before the token at %s is written under another condition (%s) than the token (%s)", a.P.instrPos(v.Instr), stripIDs(pendingSep), stripIDs(v.Cond.String())))
				}
				havePending = false
			}
			kept = append(kept, grp)
		}
		if havePending {
			probs = append(probs, "a separator is written after the last token")
		}
		if len(sepBefore) > 0 && len(sepBefore) != len(kept) {
			probs = append(probs, sprintf("%d of %d tokens are preceded by a conditional separator", len(sepBefore), len(kept)))
		}
		groups = kept
	}
	for gi, grp := range groups {
		v := grp[0].v
		pos := a.P.instrPos(v.Instr)
		prefix := ""
		if sepBefore[gi] {
			prefix = "|"
		}
		var tabPiece *piece
		bad := false
		for i := range grp {
			if grp[i].g != nil {
				if tabPiece != nil || i != len(grp)-1 {
					bad = true
				}
				tabPiece = &grp[i]
			} else {
				prefix += grp[i].konst
			}
		}
		if bad {
			probs = append(probs, "unrecognised token composition at "+pos)
			continue
		}
		if tabPiece == nil {
			tok := prefix
			// guard: exactly one positive single-bit literal on the receiver
			if len(v.Cond) != 1 || len(v.Cond[0]) != 1 {
				probs = append(probs, sprintf("token %q is guarded by %s (expected one single-bit test of the receiver)", tok, stripIDs(v.Cond.String())))
				continue
			}
			for _, l := range v.Cond[0] {
				if l.A.Kind != AkBit || l.Neg || l.A.Subj != "recv" {
					probs = append(probs, sprintf("token %q is guarded by %s", tok, stripIDs(l.String())))
					continue
				}
				rows = append(rows, row{l.A.Bits, tok, pos})
			}
			continue
		}
		// token = constant prefix + name of a row of a constant table, under a test of the receiver against that row's bit
		g := tabPiece.g
		tab, okT := staticTable(a.P, g)
		subj, opF, okG := tableGuard(a.P, v.Cond, g)
		if !okT || !okG || subj != "recv" {
			probs = append(probs, sprintf("table %s is not an immutable constant table tested against the receiver (%v, %v, subject %q)", g.Name(), okT, okG, subj))
			continue
		}
		for _, trow := range tab {
			bit, ok1 := constU(trow[opF])
			nm := trow[tabPiece.field]
			if !ok1 || nm == nil || nm.Value == nil || nm.Value.Kind() != constant.String {
				probs = append(probs, "malformed row in table "+g.Name())
				continue
			}
			if popcount(bit) != 1 {
				probs = append(probs, sprintf("row %q of table %s tests several bits at once (%#x)", constant.StringVal(nm.Value), g.Name(), bit))
				continue
			}
			rows = append(rows, row{bit, prefix + constant.StringVal(nm.Value), pos + " (table " + g.Name() + ")"})
		}
	}
	// data-driven form: names appended from a constant package table under `o & row.op != 0`, joined with "|"
	joined := false
	if len(rows) == 0 && len(probs) == 0 {
		for _, v := range w.Visits {
			call, ok := v.Instr.(*ssa.Call)
			if !ok {
				continue
			}
			args, isApp := isBuiltinCall(call, "append")
			if !isApp || len(args) != 2 {
				continue
			}
			elem := ""
			var elemV ssa.Value
			if sl, okS := args[1].(*ssa.Slice); okS {
				if al, okA := sl.X.(*ssa.Alloc); okA {
					if refs := al.Referrers(); refs != nil {
						for _, r := range *refs {
							if ia, okI := r.(*ssa.IndexAddr); okI {
								if rr := ia.Referrers(); rr != nil {
									for _, u := range *rr {
										if st, okSt := u.(*ssa.Store); okSt && st.Addr == ssa.Value(ia) {
											elem = v.Ctx.path(st.Val)
											elemV = st.Val
										}
									}
								}
							}
						}
					}
				}
			}
			// a constant name appended under one single-bit test of the receiver (possibly inside a local closure)
			if elemV != nil {
				if rv, _ := v.Ctx.resolve(elemV); rv != nil {
					if k, isK := rv.(*ssa.Const); isK && k.Value != nil && k.Value.Kind() == constant.String {
						tok := "|" + constant.StringVal(k.Value)
						if len(v.Cond) != 1 || len(v.Cond[0]) != 1 {
							probs = append(probs, sprintf("name %q is appended under %s (expected one single-bit test of the receiver)", tok[1:], stripIDs(v.Cond.String())))
							continue
						}
						for _, l := range v.Cond[0] {
							if l.A.Kind != AkBit || l.Neg || l.A.Subj != "recv" {
								probs = append(probs, sprintf("name %q is appended under %s", tok[1:], stripIDs(l.String())))
								continue
							}
							rows = append(rows, row2{l.A.Bits, tok, a.P.instrPos(call)})
						}
						joined = true
						continue
					}
				}
			}
			g, nameF, isT := tableElem(a.P, elem)
			if !isT {
				probs = append(probs, "a name that is not a row of a constant table is appended at "+a.P.instrPos(call))
				continue
			}
			tab, okT := staticTable(a.P, g)
			subj, opF, okG := tableGuard(a.P, v.Cond, g)
			if !okT || !okG || subj != "recv" {
				probs = append(probs, sprintf("table %s is not an immutable constant table tested against the receiver (%v, %v, subject %q)", g.Name(), okT, okG, subj))
				continue
			}
			for _, row := range tab {
				bit, ok1 := constU(row[opF])
				nm := row[nameF]
				if !ok1 || nm == nil || nm.Value == nil || nm.Value.Kind() != constant.String {
					probs = append(probs, "malformed row in table "+g.Name())
					continue
				}
				if popcount(bit) != 1 {
					probs = append(probs, sprintf("row %q of table %s tests several bits at once (%#x)", constant.StringVal(nm.Value), g.Name(), bit))
					continue
				}
				rows = append(rows, row2{bit, "|" + constant.StringVal(nm.Value), a.P.instrPos(call) + " (table " + g.Name() + ")"})
			}
			joined = true
		}
	}
	// defined constants
	defined := map[uint64]string{}
	for k, n := range opN {
		defined[k] = n
	}
	seenBit := map[uint64]int{}
	seenTok := map[string]int{}
	for _, r := range rows {
		seenBit[r.bit]++
		seenTok[r.token]++
	}
	var cover []string
	for k, n := range defined {
		if seenBit[k] != 1 {
			cover = append(cover, sprintf("%s is rendered %d time(s)", n, seenBit[k]))
		}
	}
	for _, r := range rows {
		if _, ok := defined[r.bit]; !ok {
			cover = append(cover, sprintf("undefined bit %#x renders %q", r.bit, r.token))
		}
	}
	sort.Strings(cover)
	var tl []string
	for _, r := range rows {
		tl = append(tl, sprintf("%s->%q", maskName(opN)(r.bit), r.token))
	}
	a.R.ob("C16.2", "Op.String:coverage", "each of the defined operations is rendered exactly once, and nothing else is", a.P.pos(opStr.Pos()), len(cover) == 0 && len(probs) == 0 && len(rows) == len(defined),
		strings.Join(append(append(cover, probs...), "table: "+strings.Join(tl, ", ")), "; "))
	// token shape
	var shape []string
	for _, r := range rows {
		switch {
		case len(r.token) < 2:
			shape = append(shape, sprintf("token %q is too short", r.token))
		case r.token[0] != '|':
			shape = append(shape, sprintf("token %q does not start with the separator '|'", r.token))
		case strings.Contains(r.token[1:], "|"):
			shape = append(shape, sprintf("token %q contains the separator", r.token))
		}
		if seenTok[r.token] > 1 {
			shape = append(shape, sprintf("token %q is used %d times", r.token, seenTok[r.token]))
		}
	}
	// each token names the constant it is printed for: the constant's identifier in upper case, words separated by '_',
	// without the internal xUnportable prefix (Create -> CREATE, xUnportableCloseWrite -> CLOSE_WRITE)
	for _, r := range rows {
		if cn, ok := defined[r.bit]; ok && len(r.token) > 1 {
			if want := opTokenName(cn); r.token[1:] != want {
				shape = append(shape, sprintf("%s is rendered as %q, not %q", cn, r.token[1:], want))
			}
		}
	}
	a.R.ob("C16.2", "Op.String:tokens", "tokens are non-empty, pairwise distinct, start with '|' and contain it nowhere else (so the joined text is unambiguous), and each is the name of its constant", a.P.pos(opStr.Pos()), len(shape) == 0 && len(rows) > 0, strings.Join(uniq(shape), "; "))
	// returns: the empty literal under Len()==0, else b.String()[1:]
	okEmpty, okStrip := false, false
	var rw []string
	for _, v := range w.Visits {
		r, ok := v.Instr.(*ssa.Return)
		if !ok || v.Ctx.Parent != nil || len(r.Results) != 1 {
			continue
		}
		switch x := r.Results[0].(type) {
		case *ssa.Const:
			lit := ""
			if x.Value != nil && x.Value.Kind() == constant.String {
				lit = constant.StringVal(x.Value)
			}
			underEmpty, _ := v.Cond.everyConj(func(c Conj) bool {
				return c.has(func(l Lit) bool {
					return l.A.Kind == AkCmp && !l.Neg && l.A.Op == "==" && l.A.K == "c:0" && (strings.Contains(l.A.Subj, "(*strings.Builder).Len(") || strings.HasPrefix(l.A.Subj, "call:len("))
				}) && !c.has(func(l Lit) bool {
					// nothing else may condition it (loop-exit literals aside)
					return !(l.A.Kind == AkCmp && (l.A.K == "c:0" || strings.Contains(l.A.Subj, "rangeindex"))) && !strings.Contains(l.A.Subj, "next(range(")
				})
			})
			if lit == "[no events]" && underEmpty {
				okEmpty = true
			}
			rw = append(rw, sprintf("returns %q under %s", lit, stripIDs(v.Cond.String())))
		case *ssa.Slice:
			lo, isLo := constUint(x.Low)
			call, isCall := x.X.(*ssa.Call)
			if isLo && lo == 1 && x.High == nil && isCall && call.Call.StaticCallee() != nil && fullName(call.Call.StaticCallee()) == "(*strings.Builder).String" && len(sepBefore) == 0 {
				okStrip = true
			}
			rw = append(rw, "returns "+stripIDs(v.Ctx.path(x)))
		case *ssa.Call:
			if cal := x.Call.StaticCallee(); cal != nil && fullName(cal) == "(*strings.Builder).String" && len(sepBefore) > 0 && len(sepBefore) == len(groups) {
				okStrip = true // every token but the first written is preceded by the separator: nothing to strip
			}
			if cal := x.Call.StaticCallee(); cal != nil && fullName(cal) == "strings.Join" && joined && len(x.Call.Args) == 2 {
				if k, isK := x.Call.Args[1].(*ssa.Const); isK && k.Value != nil && k.Value.ExactString() == `"|"` {
					okStrip = true
				}
			}
			rw = append(rw, "returns "+stripIDs(v.Ctx.path(x)))
		default:
			rw = append(rw, "returns "+stripIDs(v.Ctx.path(r.Results[0])))
		}
	}
	a.R.ob("C16.2", "Op.String:empty", "with no defined operation present the text is \"[no events]\"", a.P.pos(opStr.Pos()), okEmpty, strings.Join(rw, "; "))
	a.R.ob("C16.2", "Op.String:strip", "otherwise the text is the concatenation of the tokens without the leading separator", a.P.pos(opStr.Pos()), okStrip, strings.Join(rw, "; "))
}

// sprintfArgs returns the format constant and the variadic operands of a fmt.Sprintf call.
func sprintfArgs(call *ssa.Call, fi int) (string, []ssa.Value, bool) {
	if len(call.Call.Args) != fi+2 {
		return "", nil, false
	}
	k, ok := call.Call.Args[fi].(*ssa.Const)
	if !ok || k.Value == nil || k.Value.Kind() != constant.String {
		return "", nil, false
	}
	sl, ok := call.Call.Args[fi+1].(*ssa.Slice)
	if !ok {
		return constant.StringVal(k.Value), nil, true
	}
	al, ok := sl.X.(*ssa.Alloc)
	if !ok {
		return "", nil, false
	}
	elems := map[uint64]ssa.Value{}
	max := uint64(0)
	if refs := al.Referrers(); refs != nil {
		for _, r := range *refs {
			if ia, ok := r.(*ssa.IndexAddr); ok {
				idx, okk := constUint(ia.Index)
				if !okk {
					return "", nil, false
				}
				if rr := ia.Referrers(); rr != nil {
					for _, u := range *rr {
						if st, ok := u.(*ssa.Store); ok && st.Addr == ssa.Value(ia) {
							elems[idx] = st.Val
							if idx+1 > max {
								max = idx + 1
							}
						}
					}
				}
			}
		}
	}
	out := make([]ssa.Value, max)
	for i := range out {
		out[i] = elems[uint64(i)]
	}
	return constant.StringVal(k.Value), out, true
}

func verbs(format string) []string {
	var out []string
	for i := 0; i < len(format); i++ {
		if format[i] != '%' {
			continue
		}
		j := i + 1
		if j < len(format) && format[j] == '%' {
			i = j
			continue
		}
		for j < len(format) && strings.ContainsRune("+-# 0123456789.", rune(format[j])) {
			j++
		}
		if j < len(format) {
			out = append(out, format[i:j+1])
		}
		i = j
	}
	return out
}

func c16EventString(a *An, evStr, opStr *ssa.Function) {
	w := a.E.Walk(evStr, WalkOpts{Stop: func(f *ssa.Function) bool { return f == opStr }})
	a.R.Sites += len(w.Visits)
	// every formatting call is a fragment of the text: which operands it renders, with which verbs, under which condition
	var nameD, oldD, opD DNF
	var ws []string
	nFrag := 0
	for _, v := range w.Visits {
		call, ok := v.Instr.(*ssa.Call)
		if !ok || v.Ctx.Parent != nil {
			continue
		}
		cal := call.Call.StaticCallee()
		if cal == nil {
			continue
		}
		var fcall *ssa.Call
		switch fullName(cal) {
		case "fmt.Sprintf":
			fcall = call
		case "fmt.Fprintf":
			fcall = call
		default:
			continue
		}
		nFrag++
		var format string
		var args []ssa.Value
		okA := false
		if fullName(cal) == "fmt.Sprintf" {
			format, args, okA = sprintfArgs(fcall, 0)
		} else {
			format, args, okA = sprintfArgs(fcall, 1)
		}
		pos := a.P.instrPos(call)
		if !okA {
			ws = append(ws, pos+": format string is not a constant")
			continue
		}
		vs := verbs(format)
		if len(vs) != len(args) {
			ws = append(ws, sprintf("%s: format %q has %d verbs for %d operands", pos, format, len(vs), len(args)))
			continue
		}
		// within one call the new name comes before the old one ("name ← old name"), and the operation text first
		rank := -1
		order := func(r int, what string) {
			if r < rank {
				ws = append(ws, pos+": "+what+" is printed out of order (operation text, name, old name)")
			}
			rank = r
		}
		for i, arg := range args {
			if arg == nil {
				ws = append(ws, pos+": operand not found")
				continue
			}
			p := stripIDs(v.Ctx.path(arg))
			verb := vs[i][len(vs[i])-1]
			// a precision cuts the rendered text short (%.13s, %-13.13s): distinct values would render alike
			if strings.Contains(vs[i], ".") {
				ws = append(ws, sprintf("%s: verb %s has a precision, which truncates what it renders", pos, vs[i]))
			}
			switch {
			case p == "recv.Name":
				order(1, "the name")
				nameD = nameD.or(v.Cond)
				if verb != 'q' {
					ws = append(ws, sprintf("%s: the name is rendered with %s instead of %%q", pos, vs[i]))
				}
			case p == "recv.renamedFrom":
				order(2, "the old name")
				oldD = oldD.or(v.Cond)
				if verb != 'q' {
					ws = append(ws, sprintf("%s: the old name is rendered with %s instead of %%q", pos, vs[i]))
				}
			default:
				rv, _ := v.Ctx.resolve(arg)
				if c2, isCall := rv.(*ssa.Call); isCall && c2.Call.StaticCallee() == opStr && stripIDs(v.Ctx.path(c2.Call.Args[0])) == "recv.Op" {
					order(0, "the operation text")
					opD = opD.or(v.Cond)
					if verb != 's' && verb != 'v' {
						ws = append(ws, sprintf("%s: the operation text is rendered with %s", pos, vs[i]))
					}
				} else {
					ws = append(ws, pos+": unexpected operand "+p)
				}
			}
		}
	}
	// the name and the operation text are rendered on every path; the old name exactly when it is non-empty
	hasOld := Lit{A: &Atom{Kind: AkCmp, Subj: "recv.renamedFrom", Op: "==", K: `c:""`}, Neg: true}
	// use the atom as spelled in the conditions, if present
	for _, d := range []DNF{nameD, oldD, opD} {
		for _, c := range d {
			for _, l := range c {
				if l.A.Kind == AkCmp && strings.HasSuffix(l.A.Subj, "recv.renamedFrom") && l.A.K == `c:""` {
					hasOld = Lit{A: l.A, Neg: true}
				}
			}
		}
	}
	check := func(what string, p, q DNF) {
		h, ctr, err := implies(p, q)
		if err != nil {
			a.R.fail("%v", err)
		}
		if !h {
			ws = append(ws, what+" when "+stripIDs(ctr))
		}
	}
	if nameD.isFalse() || opD.isFalse() {
		ws = append(ws, "the name or the operation text is not rendered at all")
	} else {
		check("the name is not rendered", dnfTrue(), nameD)
		check("the operation text is not rendered", dnfTrue(), opD)
		check("the old name is not rendered although there is one", DNF{Conj{hasOld.A.ID(): hasOld}}, oldD)
		check("an empty old name is rendered", oldD, DNF{Conj{hasOld.A.ID(): hasOld}})
	}
	a.R.ob("C16.3", "Event.String", "Event.String shows the operation text, the quoted name and - exactly when there is one - the quoted old name", a.P.pos(evStr.Pos()), len(ws) == 0 && nFrag >= 1,
		sprintf("%d formatting call(s); %s", nFrag, strings.Join(ws, "; ")))
}

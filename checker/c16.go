package main

import (
	"go/constant"
	"go/token"
	"go/types"
	"sort"
	"strings"

	"golang.org/x/tools/go/ssa"
)

func init() {
	register(&property{
		Meta: propMeta{
			ID:    "C16",
			Title: "Op and Event predicates and renderings are total, exact and unambiguous",
			Explanation: "Shape rules over the SSA of fsnotify.go (identical on every configuration; thorough checks one configuration per backend). Decided for all 2^32 Op values because the accepted forms are closed: " +
				"(1) Op.Has returns exactly (o & h) != 0 and Event.Has returns Op.Has applied to the event's Op and its argument; " +
				"(2) Op.String: every write to the builder is a constant token guarded by exactly one single-bit test of the receiver; the guarded bits are exactly the nine defined Op constants, once each; tokens are non-empty, pairwise distinct, all start with the separator '|' which occurs nowhere else in a token, and the result strips exactly that first byte; the empty case returns the literal \"[no events]\", which is not a join of tokens; no other guard exists, so undefined bits never alter the text and distinct sets of defined operations render differently; " +
				"(3) Event.String: both format strings are constants, the name and old-name operands are rendered with %q, the operation operand is e.Op.String(), and the old name is printed exactly when renamedFrom is non-empty. " +
				"Not decided: fmt's and strings.Builder's own behaviour (trusted).",
			Rule:        "one obligation per accepted-form fact; the token table has one row per defined Op constant",
			Assumptions: []string{"go/types + go/ssa", "fmt.Sprintf and strings.Builder behave as documented"},
			MinObl:      7,
		},
		Configs: tiered(linuxQuick, allBackendsQ),
		Run:     runC16,
	})
}

func runC16(p *Program, e *Engine, r *Result, tier string) {
	// roles are not needed beyond Event/Op; tolerate backends without a constructor
	scope := p.MainTy.Scope()
	opObj, evObj := scope.Lookup("Op"), scope.Lookup("Event")
	if opObj == nil || evObj == nil {
		r.fail("anchor unresolved: public types Op / Event")
		return
	}
	opT := opObj.Type().(*types.Named)
	evT := evObj.Type().(*types.Named)
	a := &An{P: p, E: e, R: r, walks: map[*ssa.Function]*Walker{}, Ro: &Roles{P: p, Op: opT, Event: evT, StructOf: map[*types.Var]*types.Named{}}}
	opHas, evHas := p.method(opT, "Has"), p.method(evT, "Has")
	opStr, evStr := p.method(opT, "String"), p.method(evT, "String")
	if opHas == nil || evHas == nil || opStr == nil || evStr == nil {
		r.fail("anchor unresolved: methods Op.Has, Event.Has, Op.String, Event.String")
		return
	}
	c16Has(a, opHas, evHas)
	c16OpString(a, opStr)
	c16EventString(a, evStr, opStr)
}

func singleReturn(fn *ssa.Function) *ssa.Return {
	var ret *ssa.Return
	for _, b := range fn.Blocks {
		if r, ok := b.Instrs[len(b.Instrs)-1].(*ssa.Return); ok {
			if ret != nil {
				return nil
			}
			ret = r
		}
	}
	return ret
}

func c16Has(a *An, opHas, evHas *ssa.Function) {
	ok := false
	wit := "body is not a single `return o&h != 0`"
	if r := singleReturn(opHas); r != nil && len(opHas.Blocks) == 1 && len(r.Results) == 1 {
		if ne, isB := r.Results[0].(*ssa.BinOp); isB && ne.Op == token.NEQ {
			var and *ssa.BinOp
			if k, isK := constUint(ne.Y); isK && k == 0 {
				and, _ = ne.X.(*ssa.BinOp)
			} else if k, isK := constUint(ne.X); isK && k == 0 {
				and, _ = ne.Y.(*ssa.BinOp)
			}
			if and != nil && and.Op == token.AND && len(opHas.Params) == 2 {
				p0, p1 := ssa.Value(opHas.Params[0]), ssa.Value(opHas.Params[1])
				if (and.X == p0 && and.Y == p1) || (and.X == p1 && and.Y == p0) {
					ok, wit = true, "return (o & h) != 0"
				}
			}
		}
	}
	a.R.Sites += len(opHas.Blocks)
	a.R.ob("C16.1", "Op.Has", "Op.Has reports true exactly when the two operation sets intersect", a.P.pos(opHas.Pos()), ok, wit)
	ok2 := false
	wit2 := "body is not `return e.Op.Has(op)`"
	if r := singleReturn(evHas); r != nil && len(evHas.Blocks) == 1 && len(r.Results) == 1 {
		if call, isC := r.Results[0].(*ssa.Call); isC && call.Call.StaticCallee() == opHas && len(call.Call.Args) == 2 {
			c := a.E.rootCtx(evHas)
			recvOp := c.path(call.Call.Args[0])
			if strings.HasPrefix(recvOp, "recv.") && types.Identical(call.Call.Args[0].Type(), a.Ro.Op) && call.Call.Args[1] == ssa.Value(evHas.Params[1]) {
				ok2, wit2 = true, "return Op.Has("+recvOp+", op)"
			}
		}
	}
	a.R.ob("C16.1", "Event.Has", "Event.Has agrees with Op.Has on the event's operation set", a.P.pos(evHas.Pos()), ok2, wit2)
}

func c16OpString(a *An, opStr *ssa.Function) {
	w := a.E.Walk(opStr, WalkOpts{})
	a.R.Sites += len(w.Visits)
	opN, _ := opNames(a)
	type row struct {
		bit   uint64
		token string
		pos   string
	}
	var rows []row
	var probs []string
	var builder ssa.Value
	for _, v := range w.Visits {
		call, ok := v.Instr.(*ssa.Call)
		if !ok || v.Ctx.Parent != nil {
			continue
		}
		cal := call.Call.StaticCallee()
		if cal == nil {
			continue
		}
		fn := fullName(cal)
		if strings.HasPrefix(fn, "(*strings.Builder).Write") {
			if builder == nil {
				builder = call.Call.Args[0]
			}
			if fn != "(*strings.Builder).WriteString" {
				probs = append(probs, "builder written by "+fn+" at "+a.P.instrPos(call))
				continue
			}
			k, isK := call.Call.Args[1].(*ssa.Const)
			if !isK || k.Value == nil || k.Value.Kind() != constant.String {
				probs = append(probs, "non-constant token at "+a.P.instrPos(call))
				continue
			}
			tok := constant.StringVal(k.Value)
			// guard: exactly one positive single-bit literal on the receiver
			if len(v.Cond) != 1 || len(v.Cond[0]) != 1 {
				probs = append(probs, sprintf("token %q is guarded by %s (expected one single-bit test of the receiver)", tok, stripIDs(v.Cond.String())))
				continue
			}
			for _, l := range v.Cond[0] {
				if l.A.Kind != AkBit || l.Neg || l.A.Subj != "recv" {
					probs = append(probs, sprintf("token %q is guarded by %s", tok, stripIDs(l.String())))
					continue
				}
				rows = append(rows, row{l.A.Bits, tok, a.P.instrPos(call)})
			}
		}
	}
	// defined constants
	defined := map[uint64]string{}
	for k, n := range opN {
		defined[k] = n
	}
	seenBit := map[uint64]int{}
	seenTok := map[string]int{}
	for _, r := range rows {
		seenBit[r.bit]++
		seenTok[r.token]++
	}
	var cover []string
	for k, n := range defined {
		if seenBit[k] != 1 {
			cover = append(cover, sprintf("%s is rendered %d time(s)", n, seenBit[k]))
		}
	}
	for _, r := range rows {
		if _, ok := defined[r.bit]; !ok {
			cover = append(cover, sprintf("undefined bit %#x renders %q", r.bit, r.token))
		}
	}
	sort.Strings(cover)
	var tl []string
	for _, r := range rows {
		tl = append(tl, sprintf("%s->%q", maskName(opN)(r.bit), r.token))
	}
	a.R.ob("C16.2", "Op.String:coverage", "each of the defined operations is rendered exactly once, and nothing else is", a.P.pos(opStr.Pos()), len(cover) == 0 && len(probs) == 0 && len(rows) == len(defined),
		strings.Join(append(append(cover, probs...), "table: "+strings.Join(tl, ", ")), "; "))
	// token shape
	var shape []string
	for _, r := range rows {
		switch {
		case len(r.token) < 2:
			shape = append(shape, sprintf("token %q is too short", r.token))
		case r.token[0] != '|':
			shape = append(shape, sprintf("token %q does not start with the separator '|'", r.token))
		case strings.Contains(r.token[1:], "|"):
			shape = append(shape, sprintf("token %q contains the separator", r.token))
		}
		if seenTok[r.token] > 1 {
			shape = append(shape, sprintf("token %q is used %d times", r.token, seenTok[r.token]))
		}
	}
	a.R.ob("C16.2", "Op.String:tokens", "tokens are non-empty, pairwise distinct, start with '|' and contain it nowhere else (so the joined text is unambiguous)", a.P.pos(opStr.Pos()), len(shape) == 0 && len(rows) > 0, strings.Join(uniq(shape), "; "))
	// returns: the empty literal under Len()==0, else b.String()[1:]
	okEmpty, okStrip := false, false
	var rw []string
	for _, v := range w.Visits {
		r, ok := v.Instr.(*ssa.Return)
		if !ok || v.Ctx.Parent != nil || len(r.Results) != 1 {
			continue
		}
		switch x := r.Results[0].(type) {
		case *ssa.Const:
			lit := ""
			if x.Value != nil && x.Value.Kind() == constant.String {
				lit = constant.StringVal(x.Value)
			}
			underEmpty, _ := v.Cond.everyConj(func(c Conj) bool {
				return len(c) == 1 && c.has(func(l Lit) bool {
					return l.A.Kind == AkCmp && !l.Neg && l.A.Op == "==" && l.A.K == "c:0" && strings.Contains(l.A.Subj, "(*strings.Builder).Len(")
				})
			})
			if lit == "[no events]" && underEmpty {
				okEmpty = true
			}
			rw = append(rw, sprintf("returns %q under %s", lit, stripIDs(v.Cond.String())))
		case *ssa.Slice:
			lo, isLo := constUint(x.Low)
			call, isCall := x.X.(*ssa.Call)
			if isLo && lo == 1 && x.High == nil && isCall && call.Call.StaticCallee() != nil && fullName(call.Call.StaticCallee()) == "(*strings.Builder).String" {
				okStrip = true
			}
			rw = append(rw, "returns "+stripIDs(v.Ctx.path(x)))
		default:
			rw = append(rw, "returns "+stripIDs(v.Ctx.path(r.Results[0])))
		}
	}
	a.R.ob("C16.2", "Op.String:empty", "with no defined operation present the text is \"[no events]\"", a.P.pos(opStr.Pos()), okEmpty, strings.Join(rw, "; "))
	a.R.ob("C16.2", "Op.String:strip", "otherwise the text is the concatenation of the tokens without the leading separator", a.P.pos(opStr.Pos()), okStrip, strings.Join(rw, "; "))
}

// sprintfArgs returns the format constant and the variadic operands of a fmt.Sprintf call.
func sprintfArgs(call *ssa.Call) (string, []ssa.Value, bool) {
	if len(call.Call.Args) != 2 {
		return "", nil, false
	}
	k, ok := call.Call.Args[0].(*ssa.Const)
	if !ok || k.Value == nil || k.Value.Kind() != constant.String {
		return "", nil, false
	}
	sl, ok := call.Call.Args[1].(*ssa.Slice)
	if !ok {
		return constant.StringVal(k.Value), nil, true
	}
	al, ok := sl.X.(*ssa.Alloc)
	if !ok {
		return "", nil, false
	}
	elems := map[uint64]ssa.Value{}
	max := uint64(0)
	if refs := al.Referrers(); refs != nil {
		for _, r := range *refs {
			if ia, ok := r.(*ssa.IndexAddr); ok {
				idx, okk := constUint(ia.Index)
				if !okk {
					return "", nil, false
				}
				if rr := ia.Referrers(); rr != nil {
					for _, u := range *rr {
						if st, ok := u.(*ssa.Store); ok && st.Addr == ssa.Value(ia) {
							elems[idx] = st.Val
							if idx+1 > max {
								max = idx + 1
							}
						}
					}
				}
			}
		}
	}
	out := make([]ssa.Value, max)
	for i := range out {
		out[i] = elems[uint64(i)]
	}
	return constant.StringVal(k.Value), out, true
}

func verbs(format string) []string {
	var out []string
	for i := 0; i < len(format); i++ {
		if format[i] != '%' {
			continue
		}
		j := i + 1
		if j < len(format) && format[j] == '%' {
			i = j
			continue
		}
		for j < len(format) && strings.ContainsRune("+-# 0123456789.", rune(format[j])) {
			j++
		}
		if j < len(format) {
			out = append(out, format[i:j+1])
		}
		i = j
	}
	return out
}

func c16EventString(a *An, evStr, opStr *ssa.Function) {
	w := a.E.Walk(evStr, WalkOpts{Stop: func(f *ssa.Function) bool { return f == opStr }})
	a.R.Sites += len(w.Visits)
	type site struct {
		withOld bool
		cond    DNF
		ok      bool
		why     string
		pos     string
	}
	var sites []site
	for _, v := range w.Visits {
		call, ok := v.Instr.(*ssa.Call)
		if !ok || v.Ctx.Parent != nil {
			continue
		}
		cal := call.Call.StaticCallee()
		if cal == nil || fullName(cal) != "fmt.Sprintf" {
			continue
		}
		format, args, okA := sprintfArgs(call)
		s := site{cond: v.Cond, pos: a.P.instrPos(call)}
		if !okA {
			s.why = "format string is not a constant"
			sites = append(sites, s)
			continue
		}
		vs := verbs(format)
		if len(vs) != len(args) {
			s.why = sprintf("format %q has %d verbs for %d operands", format, len(vs), len(args))
			sites = append(sites, s)
			continue
		}
		s.ok = true
		nName, nOld, nOp := 0, 0, 0
		for i, arg := range args {
			if arg == nil {
				s.ok = false
				s.why = "operand not found"
				continue
			}
			p := stripIDs(v.Ctx.path(arg))
			verb := vs[i][len(vs[i])-1]
			switch {
			case p == "recv.Name":
				nName++
				if verb != 'q' {
					s.ok, s.why = false, sprintf("the name is rendered with %s instead of %%q", vs[i])
				}
			case p == "recv.renamedFrom":
				nOld++
				if verb != 'q' {
					s.ok, s.why = false, sprintf("the old name is rendered with %s instead of %%q", vs[i])
				}
			default:
				// e.Op.String()
				rv, _ := v.Ctx.resolve(arg)
				if c2, isCall := rv.(*ssa.Call); isCall && c2.Call.StaticCallee() == opStr && stripIDs(v.Ctx.path(c2.Call.Args[0])) == "recv.Op" {
					nOp++
					if verb != 's' && verb != 'v' {
						s.ok, s.why = false, sprintf("the operation text is rendered with %s", vs[i])
					}
				} else {
					s.ok, s.why = false, "unexpected operand "+p
				}
			}
		}
		if nName != 1 || nOp != 1 || nOld > 1 {
			s.ok = false
			s.why += sprintf(" (operands: %d name, %d op text, %d old name)", nName, nOp, nOld)
		}
		s.withOld = nOld == 1
		sites = append(sites, s)
	}
	okAll := len(sites) == 2
	var ws []string
	for _, s := range sites {
		if !s.ok {
			okAll = false
			ws = append(ws, s.pos+": "+s.why)
		}
		// old name printed iff renamedFrom != ""
		want := func(c Conj) bool {
			return c.has(func(l Lit) bool {
				return l.A.Kind == AkCmp && l.A.Op == "==" && strings.HasSuffix(l.A.Subj, "recv.renamedFrom") && l.A.K == `c:""` && l.Neg == s.withOld
			})
		}
		if g, _ := s.cond.everyConj(want); !g {
			okAll = false
			ws = append(ws, sprintf("%s: rendering with old name=%v is chosen under %s", s.pos, s.withOld, stripIDs(s.cond.String())))
		}
	}
	if len(sites) == 2 && sites[0].withOld == sites[1].withOld {
		okAll = false
		ws = append(ws, "both renderings treat the old name alike")
	}
	a.R.ob("C16.3", "Event.String", "Event.String shows the operation text, the quoted name and - exactly when there is one - the quoted old name", a.P.pos(evStr.Pos()), okAll,
		sprintf("%d Sprintf site(s); %s", len(sites), strings.Join(ws, "; ")))
}

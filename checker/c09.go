package main

import (
	"fmt"
	"go/types"
	"os"
	"strings"

	"golang.org/x/tools/go/ssa"
)

func init() {
	register(&property{
		Meta: propMeta{
			ID:    "C09",
			Title: "A watch ends when its path is deleted or renamed, and can be re-added",
			Explanation: "Must-call-on-guard rules over the SSA of the inotify event handler (reaching conditions as DNF; implication decided by truth table). Decided: " +
				"(1) whenever the record has IN_IGNORED, IN_UNMOUNT or IN_DELETE_SELF and its watch is known, both table entries of that watch are deleted before the handler returns (so the path leaves WatchList and a later Remove reports ErrNonExistentWatch, and a re-Add creates a fresh entry); " +
				"(2) whenever the record has IN_MOVE_SELF, the watch is known and not recursive, the handler calls the same removal function the API's Remove uses (tables and inotify_rm_watch) with the path of this record's watch - the kernel keeps following the moved inode, nothing else ends the watch; " +
				"(3) the suppression of the duplicate Remove consults the path table for the parent directory of this watch's path; " +
				"(4) a re-Add of an unlisted path creates a fresh entry under the new descriptor (C12.1 forms). " +
				"Not decided: open-descriptor timing (kernel decides when IN_DELETE_SELF is raised); 'reports nothing further' as a behaviour.",
			Rule:        "one obligation per (guard, required effect) pair; implication guard => reaching condition of the effect decided over all assignments of the atoms involved",
			Assumptions: []string{"go/types + go/ssa", "inotify(7) semantics of IN_IGNORED / IN_DELETE_SELF / IN_MOVE_SELF"},
			MinObl:      12,
		},
		Configs: tiered(linuxQuick, linuxAll),
		Run:     runC09,
	})
}

func runC09(p *Program, e *Engine, r *Result, tier string) {
	a := newAn(p, e, r, true)
	if a == nil {
		return
	}
	df := decodeFacts(a)
	tf := findTables(a)
	if df == nil || tf == nil {
		return
	}
	ro := a.Ro
	w, hv, hctx := handlerVisits(a, df)
	if hctx == nil {
		a.R.fail("handler %s is not inlined", shortFn(df.Handler))
		return
	}
	// entry condition of the handler and the literals "watch known", mask bits
	var entry DNF
	for _, v := range hv {
		if v.Ctx == hctx {
			entry = v.Cond
			break
		}
	}
	var watchLit *Lit
	var maskSubj string
	for _, v := range hv {
		for _, c := range v.Cond {
			for _, l := range c {
				if l.A.Kind == AkNil && l.Neg && lookupInTable(l.A, []*types.Var{tf.wdTable}) && watchLit == nil {
					ll := l
					watchLit = &ll
				}
				if (l.A.Kind == AkBit) && strings.HasSuffix(l.A.Subj, ".Mask") && maskSubj == "" {
					maskSubj = l.A.Subj
				}
			}
		}
	}
	if watchLit == nil || maskSubj == "" {
		a.R.fail("anchor unresolved: handler's nil test of the wd lookup / mask tests")
		return
	}
	entryPath := strings.TrimSuffix(watchLit.A.Subj, "")
	_, pathF := tf.watchFields()
	ops := collectTableOps(a, tf, w)
	c09Cleanup(a, tf, hctx, entry, *watchLit, entryPath, maskSubj, ops, "C09.1")
	c09MoveSelf(a, df, tf, hv, hctx, entry, *watchLit, entryPath, maskSubj, "C09.2")
	// (6) the reader takes a watch out of the tables only when the kernel says this record's watch is gone, or together
	// with inotify_rm_watch on it (shared with C12.2): a watched file that is unlinked while a descriptor is open keeps
	// its watch - an IN_DELETE reported by the parent directory is no reason to forget the file's own watch
	for _, rd := range a.Ro.Readers {
		c12Release(a, tf, rd, "C09.6")
	}
	// (3) duplicate suppression consults Dir(watch.path)
	sup := false
	for _, v := range hv {
		r, ok := v.Instr.(*ssa.Return)
		if os.Getenv("VERIF_DEBUG") != "" && ok && v.Ctx == hctx {
			fmt.Fprintf(os.Stderr, "C09.3 return %s zero=%v cond=%s\n", a.P.instrPos(r), zeroEvent(v.Ctx, r.Results[0]), stripIDs(v.Cond.String()))
		}
		if !ok || v.Ctx != hctx || len(r.Results) == 0 || !zeroEvent(v.Ctx, r.Results[0]) {
			continue
		}
		for _, c := range v.Cond {
			for _, l := range c {
				if l.A.Kind == AkOk && !l.Neg && lookupInTable(l.A, []*types.Var{tf.pathTable}) &&
					strings.Contains(stripIDs(l.A.Subj), "filepath.Dir("+stripIDs(entryPath)+"."+pathF+")") {
					if c.has(func(x Lit) bool { return isBitLit(x, "IN_DELETE_SELF", a) }) {
						sup = true
					}
				}
			}
		}
	}
	a.R.ob("C09.3", "delete-self:parent-lookup", "the duplicate Remove of a deleted watched path is suppressed exactly when the parent directory of this watch's path is in the path table", a.P.pos(df.Handler.Pos()), sup,
		"an empty-event return under IN_DELETE_SELF ∧ ok(pathTable[Dir(watch.path)])")
	// every other suppression of an event is one of the enumerated reasons (shared with C01.3)
	c01Drops(a, df, "C09.3")
	// (5) the handler asks the kernel for a watch only for a new directory under a recursive watch: a watch that ended
	// (deleted or renamed away) is never re-established behind the user's back
	nReg := 0
	for _, v := range syscallVisits(a, w, "InotifyAddWatch") {
		if !inHandler(v, hctx) {
			continue
		}
		nReg++
		g, bad := v.Cond.everyConj(func(c Conj) bool {
			return c.has(func(l Lit) bool { return l.A.Kind == AkBool && !l.Neg && strings.HasSuffix(l.A.Subj, ".recurse") })
		})
		wit := "only under the watch's recursive flag"
		if !g {
			wit = "inotify_add_watch is reached from the handler under " + stripIDs(bad.String())
		}
		a.R.ob("C09.5", "handler:registers-only-recursive", "the event handler registers a watch only for a watch with the recursive flag (a watch that ended is not re-established)", a.P.instrPos(v.Instr), g, wit)
	}
	if nReg == 0 {
		a.R.ob("C09.5", "handler:registers-only-recursive", "the event handler registers no watch in this configuration", a.P.pos(df.Handler.Pos()), true, "no inotify_add_watch reachable from the handler (recursive mode folded off)")
	}
	// (4) fresh entry on re-Add: shared with C12.1; a stale entry is released first (shared with C04.7)
	c04Replace(a, tf, ro.API["AddWith"], "C09.4")
	c12Acquire(a, tf, ro.API["AddWith"])
	for i := range a.R.Obligations {
		if a.R.Obligations[i].Rule == "C12.1" {
			a.R.Obligations[i].Rule = "C09.4"
			a.R.Obligations[i].Key = "C09.4|" + strings.TrimPrefix(a.R.Obligations[i].Key, "C12.1|")
		}
	}
}

// c09MoveSelf: a record with IN_MOVE_SELF for a known non-recursive watch ends the watch through the removal function
// the API Remove uses (tables and inotify_rm_watch), for this watch's own path.
func c09MoveSelf(a *An, df *DecodeFacts, tf *tableFacts, hv []*Visit, hctx *Ctx, entry DNF, wl Lit, entryPath, maskSubj, rule string) {
	ro := a.Ro
	watchLit := &wl
	_, pathF := tf.watchFields()
	bit := func(name string) Lit {
		k, _ := unixConst(a, name)
		return Lit{A: &Atom{Kind: AkBit, Subj: maskSubj, Bits: k}}
	}
	not := func(l Lit) Lit { l.Neg = !l.Neg; return l }
	// (2) MOVE_SELF: the handler (directly or through a helper) calls a function that the API Remove also uses and that
	// reaches both table deletes and inotify_rm_watch
	rmAPI := ro.API["Remove"]
	removal := map[*ssa.Function]bool{}
	if rmAPI != nil {
		rw := a.walk(rmAPI)
		for _, v := range rw.Visits {
			call, ok := v.Instr.(*ssa.Call)
			if !ok {
				continue
			}
			cal := v.Ctx.calleeOf(&call.Call)
			if cal == nil || !a.P.inMain(cal) {
				continue
			}
			reachesRm, dels := false, map[*types.Var]bool{}
			for _, u := range rw.Visits {
				if !u.Ctx.inChain(cal) {
					continue
				}
				if c2 := visitCallee(u); c2 != nil && c2.Name() == "InotifyRmWatch" {
					reachesRm = true
				}
				if args, isDel := isBuiltinCall(u.Instr, "delete"); isDel {
					if f := u.Ctx.fieldOfValue(args[0]); f == tf.wdTable || f == tf.pathTable {
						dels[f] = true
					}
				}
			}
			if reachesRm && len(dels) == 2 {
				removal[cal] = true
			}
		}
	}
	recLit := Lit{A: &Atom{Kind: AkBool, Subj: entryPath + ".recurse"}}
	for _, v := range hv {
		for _, c := range v.Cond {
			for _, l := range c {
				if l.A.Kind == AkBool && strings.HasSuffix(l.A.Subj, ".recurse") {
					recLit = Lit{A: l.A}
				}
			}
		}
	}
	T := entry.andLit(*watchLit).andLit(bit("IN_MOVE_SELF")).andLit(not(bit("IN_IGNORED"))).andLit(not(bit("IN_UNMOUNT"))).andLit(not(recLit))
	found := false
	for _, v := range hv {
		call, ok := v.Instr.(*ssa.Call)
		if !ok {
			continue
		}
		cal := v.Ctx.calleeOf(&call.Call)
		if cal == nil || !removal[cal] {
			continue
		}
		// outermost removal call only (a removal function may call another)
		nested := false
		for c := v.Ctx; c != nil && c != hctx; c = c.Parent {
			if removal[c.Fn] {
				nested = true
			}
		}
		if nested {
			continue
		}
		found = true
		h, ctr, err := implies(T, v.Cond)
		if err != nil {
			a.R.fail("%v", err)
		}
		wit := "call of " + shortFn(cal) + " is reached whenever the guard holds"
		if !h {
			wit = "the watch is not removed when " + stripIDs(ctr)
		}
		a.R.ob(rule, "move-self:removes-watch", "a record with IN_MOVE_SELF for a known non-recursive watch calls the removal function Remove uses (tables and inotify_rm_watch)", a.P.instrPos(call), h, wit)
		arg := stripIDs(v.Ctx.path(call.Call.Args[len(call.Call.Args)-1]))
		a.R.ob(rule, "move-self:own-path", "that removal is for the path of this record's watch", a.P.instrPos(call), arg == stripIDs(entryPath)+"."+pathF, "argument: "+tail(arg, 100))
	}
	if !found {
		a.R.ob(rule, "move-self:removes-watch", "a record with IN_MOVE_SELF for a known non-recursive watch calls the removal function Remove uses (tables and inotify_rm_watch)", a.P.pos(df.Handler.Pos()), false,
			"below the handler no function is called that the API Remove also uses and that reaches both table deletes and inotify_rm_watch")
	}
}

// c09Cleanup: records with a kernel-says-gone flag remove both table entries of their watch.
func c09Cleanup(a *An, tf *tableFacts, hctx *Ctx, entry DNF, watchLit Lit, entryPath, maskSubj string, ops []tableOp, rule string) {
	wdF, pathF := tf.watchFields()
	bit := func(name string) Lit {
		k, _ := unixConst(a, name)
		return Lit{A: &Atom{Kind: AkBit, Subj: maskSubj, Bits: k}}
	}
	for _, g := range []string{"IN_IGNORED", "IN_UNMOUNT", "IN_DELETE_SELF"} {
		T := entry.andLit(watchLit).andLit(bit(g))
		for _, tbl := range []struct {
			name string
			key  string
		}{{"wd", stripIDs(entryPath) + "." + wdF}, {"path", stripIDs(entryPath) + "." + pathF}} {
			var eff DNF
			where := ""
			for _, op := range ops {
				if op.Kind == "delete" && op.Key == tbl.key && inHandler(op.V, hctx) {
					eff = eff.or(op.V.Cond)
					where = a.P.instrPos(op.V.Instr)
				}
			}
			ok, wit := false, "no delete of this watch's "+tbl.name+"-table entry in the handler"
			if !eff.isFalse() {
				h, ctr, err := implies(T, eff)
				if err != nil {
					a.R.fail("%v", err)
				}
				ok = h
				wit = "delete at " + where + " is reached whenever the guard holds"
				if !h {
					wit = "the entry survives when " + stripIDs(ctr)
				}
			}
			a.R.ob(rule, "cleanup("+g+","+tbl.name+"-table)", "a record with "+g+" for a known watch removes that watch's "+tbl.name+"-table entry before the handler returns", where, ok, wit)
		}
	}
}

// handlerFrame gathers what the handler rules need: entry condition, the "watch known" literal, the mask subject.
func handlerFrame(a *An, df *DecodeFacts, tf *tableFacts) (w *Walker, hv []*Visit, hctx *Ctx, entry DNF, watchLit *Lit, maskSubj string) {
	w, hv, hctx = handlerVisits(a, df)
	if hctx == nil {
		a.R.fail("handler %s is not inlined", shortFn(df.Handler))
		return
	}
	for _, v := range hv {
		if v.Ctx == hctx {
			entry = v.Cond
			break
		}
	}
	for _, v := range hv {
		for _, c := range v.Cond {
			for _, l := range c {
				if l.A.Kind == AkNil && l.Neg && lookupInTable(l.A, []*types.Var{tf.wdTable}) && watchLit == nil {
					ll := l
					watchLit = &ll
				}
				if (l.A.Kind == AkBit) && strings.HasSuffix(l.A.Subj, ".Mask") && maskSubj == "" {
					maskSubj = l.A.Subj
				}
			}
		}
	}
	if watchLit == nil || maskSubj == "" {
		a.R.fail("anchor unresolved: handler's nil test of the wd lookup / mask tests")
		hctx = nil
	}
	return
}

func inHandler(v *Visit, hctx *Ctx) bool {
	for c := v.Ctx; c != nil; c = c.Parent {
		if c == hctx {
			return true
		}
	}
	return false
}

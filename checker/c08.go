package main

import (
	"go/token"
	"go/types"
	"strings"

	"golang.org/x/tools/go/ssa"
)

func init() {
	register(&property{
		Meta: propMeta{
			ID:    "C08",
			Title: "Event names are spelled relative to the caller's Add argument",
			Explanation: "Origin rules over the SSA of the inotify backend. Decided: " +
				"(1) the name handed to the translator is watch.path or watch.path+\"/\"+entry for the watch looked up by this record's Wd (C02.3), and the translator stores exactly that operand in Event.Name; " +
				"(2) every store to a watch's path field has a value built only from parameters, filepath.Clean, string concatenation/slicing and existing paths - no call that resolves or absolutises (Abs, EvalSymlinks, Readlink, Getwd, Rel, os.Stat-derived names) is in its backward slice, and none of those functions is reachable from Add or from the event handler at all; the Add argument reaches the path field through filepath.Clean only; " +
				"(3) the entry name is cut from the same buffer the record pointer was taken from, starting at offset+Sizeof(InotifyEvent) and bounded by this record's Len, and becomes a string only through a NUL-trimming idiom (strings.TrimRight/TrimSuffix with \"\\x00\", IndexByte(…,0)+slice, unix.ByteSliceToString); " +
				"(4) first name wins: an alias returns the existing entry and the Add flow never rewrites an existing entry's path (C04.4). " +
				"Not decided: UTF-8/length behaviour of the kernel.",
			Rule:        "one obligation per path-field store, per forbidden callee, per name-origin edge, per buffer-slice fact",
			Assumptions: []string{"go/types + go/ssa", "types.Sizes for Sizeof(unix.InotifyEvent)"},
			MinObl:      8,
		},
		Configs: tiered(linuxQuick, linuxAll),
		Run:     runC08,
	})
}

var resolvingFns = map[string]bool{
	"path/filepath.Abs": true, "path/filepath.EvalSymlinks": true, "os.Readlink": true, "os.Getwd": true, "path/filepath.Rel": true,
	"os.Stat": true, "os.Lstat": true, "(*os.File).Name": true, "path/filepath.Glob": true, "os.Executable": true,
}

func runC08(p *Program, e *Engine, r *Result, tier string) {
	a := newAn(p, e, r, true)
	if a == nil {
		return
	}
	df := decodeFacts(a)
	tf := findTables(a)
	if df == nil || tf == nil {
		return
	}
	// (5) what the handler returns is the translator's event, unmodified: the name is not touched after translation
	// (shared with C01.3)
	c01Drops(a, df, "C08.5")
	ro := a.Ro
	// (1) name operand and its use by the translator
	_, hv, hctx := handlerVisits(a, df)
	if hctx == nil {
		a.R.fail("handler not inlined")
		return
	}
	trs := findTranslators(a)
	if len(trs) != 1 {
		a.R.fail("anchor unresolved: translator")
		return
	}
	tr := trs[0]
	var trCall *Visit
	for _, v := range hv {
		if call, ok := v.Instr.(*ssa.Call); ok && v.Ctx == hctx && v.Ctx.calleeOf(&call.Call) == tr.fn {
			trCall = v
		}
	}
	if trCall == nil {
		a.R.fail("anchor unresolved: translator call in the handler")
		return
	}
	saved := len(a.R.Obligations)
	c02Origins(a, df, tr, trCall, hctx)
	for i := saved; i < len(a.R.Obligations); i++ {
		o := &a.R.Obligations[i]
		o.Rule = "C08.1"
		o.Key = "C08.1|" + strings.TrimPrefix(o.Key, "C02.3|")
	}
	// translator stores its name parameter in Event.Name
	nameOK := false
	var nameParam *ssa.Parameter
	for _, prm := range tr.fn.Params {
		if isString(prm.Type()) {
			nameParam = prm
			break
		}
	}
	var nameStores []string
	for _, b := range tr.fn.Blocks {
		for _, in := range b.Instrs {
			if st, ok := in.(*ssa.Store); ok {
				if fa, ok := st.Addr.(*ssa.FieldAddr); ok && fieldName(fa.X.Type(), fa.Field) == "Name" && types.Identical(deref(fa.X.Type()), ro.Event) {
					nameStores = append(nameStores, st.Val.String())
					if st.Val == ssa.Value(nameParam) {
						nameOK = true
					} else {
						nameOK = false
					}
				}
			}
		}
	}
	a.R.ob("C08.1", "translator:name", "the translator puts exactly the name it is given into Event.Name", a.P.pos(tr.fn.Pos()), nameOK && len(nameStores) == 1, "stores to Name: "+fmtList(nameStores))

	// (2) stores to the path field
	roots := []*ssa.Function{ro.API["AddWith"], ro.API["Remove"]}
	roots = append(roots, ro.Readers...)
	c08PathStores(a, tf, roots)
	// forbidden callees unreachable from Add and from the handler
	var reach []string
	for _, root := range []*ssa.Function{ro.API["AddWith"], df.Reader} {
		for _, v := range a.walk(root).Visits {
			if call, ok := v.Instr.(*ssa.Call); ok {
				if cal := v.Ctx.calleeOf(&call.Call); cal != nil && resolvingFns[fullName(cal)] {
					reach = append(reach, fullName(cal)+" at "+a.P.instrPos(call)+" via "+v.Ctx.chain())
				}
			}
		}
	}
	a.R.ob("C08.2", "no-resolving-calls", "nothing on the Add path or in the event handler resolves symlinks, absolutises or stats a name", "-", len(reach) == 0, fmtList(uniq(reach)))

	// (3) entry name bytes
	c08EntryName(a, df, hv, hctx)

	// (4) first name wins
	c04Alias(a, tf, ro.API["AddWith"])
	for i := range a.R.Obligations {
		if a.R.Obligations[i].Rule == "C04.4" {
			a.R.Obligations[i].Rule = "C08.4"
			a.R.Obligations[i].Key = "C08.4|" + strings.TrimPrefix(a.R.Obligations[i].Key, "C04.4|")
		}
	}
}

// c08PathStores: every store to a watch's path field is built from the caller's spelling only.
// mainFnByName: the function of the analysed package whose short name (as printed in paths) is name.
func mainFnByName(a *An, name string) *ssa.Function {
	for _, fn := range a.P.srcFuncs(a.P.Main) {
		if shortFn(fn) == name {
			return fn
		}
	}
	return nil
}

func c08PathStores(a *An, tf *tableFacts, roots []*ssa.Function) {
	ro := a.Ro
	translatorNames := map[string]bool{}
	for _, fn := range a.P.srcFuncs(a.P.Main) {
		if res := fn.Signature.Results(); res.Len() == 1 && types.Identical(res.At(0).Type(), ro.Event) {
			translatorNames[shortFn(fn)] = true
		}
	}
	_, pathF := tf.watchFields()
	seen := map[string]bool{}
	for _, root := range roots {
		w := a.walk(root)
		for _, v := range w.Visits {
			st, ok := v.Instr.(*ssa.Store)
			if !ok {
				continue
			}
			fa, ok := st.Addr.(*ssa.FieldAddr)
			if !ok || fieldName(fa.X.Type(), fa.Field) != pathF || ro.StructOf[fieldOf(fa)] != tf.watchT {
				continue
			}
			vp := stripIDs(v.Ctx.path(st.Val))
			key := root.Name() + ":path-store(" + tail(stripCallArgs(vp), 50) + ")"
			if seen[key] {
				continue
			}
			seen[key] = true
			var bad []string
			// the value through phis and the returns of package-local helpers: every source is judged
			rest := vp
			if edges := valueEdges(v.Ctx, st.Val, dnfTrue()); len(edges) > 1 {
				rest = ""
				for _, e := range edges {
					rest += " " + stripIDs(e.Ctx.path(e.V))
				}
			}
			for {
				i := strings.Index(rest, "call:")
				if i < 0 {
					break
				}
				rest = rest[i+5:]
				j := strings.IndexByte(rest, '(')
				if strings.HasPrefix(rest, "(") { // method: (*T).M(
					k := strings.Index(rest, ").")
					if k >= 0 {
						j2 := strings.IndexByte(rest[k+2:], '(')
						if j2 >= 0 {
							j = k + 2 + j2
						}
					}
				}
				if j < 0 {
					break
				}
				name := rest[:j]
				switch {
				case name == "path/filepath.Clean" || name == "len":
				case name == "strings.TrimRight" || name == "strings.TrimSuffix" || name == "golang.org/x/sys/unix.ByteSliceToString":
					// the entry name taken from the kernel's record (judged by C08.3), part of an event's name
				case translatorNames[name]:
					// the Name of an event built by the translator: C08.1 shows it is the name the handler passed in
				default:
					// a package-local helper is transparent when nothing it reaches resolves or absolutises a path
					if hf := mainFnByName(a, name); hf != nil {
						clean := true
						for _, u := range a.E.Walk(hf, WalkOpts{NoCond: true}).Visits {
							if cal := visitCallee(u); cal != nil && resolvingFns[fullName(cal)] {
								clean = false
							}
						}
						if clean {
							continue
						}
					}
					bad = append(bad, name)
				}
			}
			viaClean := true
			if root == ro.API["AddWith"] && strings.Contains(vp, "p:") && !strings.Contains(vp, "$") {
				// built from the API argument: must pass through Clean
				viaClean = strings.Contains(vp, "path/filepath.Clean(")
			}
			ok2 := len(bad) == 0 && viaClean
			wit := "value: " + tail(vp, 160)
			if len(bad) > 0 {
				wit = "the path is computed by " + fmtList(uniq(bad)) + " || " + wit
			}
			if !viaClean {
				wit = "the Add argument reaches the path field without filepath.Clean || " + wit
			}
			a.R.ob("C08.2", key, "a watch's path is the caller's spelling (cleaned), never a resolved or absolutised one", a.P.instrPos(st), ok2, wit)
		}
	}
}

var trimIdioms = map[string]bool{"strings.TrimRight": true, "strings.TrimSuffix": true, "golang.org/x/sys/unix.ByteSliceToString": true, "bytes.TrimRight": true}

func c08EntryName(a *An, df *DecodeFacts, hv []*Visit, hctx *Ctx) {
	size := sizeofRecord(a, df)
	// string conversions of byte slices anywhere below the handler (helpers are inlined)
	n := 0
	for _, v := range hv {
		cv, ok := v.Instr.(*ssa.Convert)
		if !ok || !isString(cv.Type()) {
			continue
		}
		if _, isSlice := cv.X.Type().Underlying().(*types.Slice); !isSlice {
			continue
		}
		n++
		vc := v.Ctx
		// (a) NUL padding removed: the string goes only into a trimming call, or the slice converted is already cut at the
		// end of the trailing NULs by a loop comparing its bytes with 0
		trimOK := true
		var uses []string
		if refs := cv.Referrers(); refs != nil {
			for _, rr := range *refs {
				switch x := rr.(type) {
				case *ssa.Call:
					cal := x.Call.StaticCallee()
					nm := ""
					if cal != nil {
						nm = fullName(cal)
					}
					uses = append(uses, nm)
					if !trimIdioms[nm] {
						trimOK = false
					} else if nm != "golang.org/x/sys/unix.ByteSliceToString" {
						if k, isK := x.Call.Args[len(x.Call.Args)-1].(*ssa.Const); !isK || k.Value == nil || k.Value.ExactString() != `"\x00"` {
							trimOK = false
							uses = append(uses, "cutset is not \"\\x00\"")
						}
					}
				case *ssa.DebugRef:
				default:
					trimOK = false
					uses = append(uses, "used untrimmed")
				}
			}
		}
		if !trimOK || len(uses) == 0 {
			if sl, isSl := cv.X.(*ssa.Slice); isSl && sl.High != nil && nulScanLoop(cv.Parent(), sl) {
				trimOK = true
				uses = []string{"slice bound computed by a loop that skips trailing zero bytes"}
			}
		}
		a.R.ob("C08.3", "entry:nul-trim", "the kernel's NUL padding is removed before the entry name is used", a.P.instrPos(cv), trimOK && len(uses) > 0, "uses of the raw string: "+fmtList(uses))
		// (b) the bytes: slices of an array pointer at index offset+Sizeof of the reader's buffer, bounded by Len
		var bounds []ssa.Value
		cur := cv.X
		var idx *ssa.IndexAddr
		for i := 0; i < 10 && cur != nil; i++ {
			switch x := cur.(type) {
			case *ssa.Slice:
				if x.High != nil {
					bounds = append(bounds, x.High)
				}
				if x.Max != nil {
					bounds = append(bounds, x.Max)
				}
				cur = x.X
			case *ssa.Convert:
				cur = x.X
			case *ssa.ChangeType:
				cur = x.X
			case *ssa.IndexAddr:
				idx = x
				cur = nil
			default:
				cur = nil
			}
		}
		startOK, lenOK, bufOK := false, false, false
		desc := ""
		if idx != nil {
			// index = offset + size, where offset resolves (through helper parameters) to the reader's offset variable
			var k int64
			nTerms := 0
			okLin := true
			var collect func(v ssa.Value, c *Ctx)
			collect = func(v ssa.Value, c *Ctx) {
				lf := lin(v)
				if !lf.ok {
					okLin = false
					return
				}
				k += lf.k
				for t, coef := range lf.terms {
					if coef != 1 {
						okLin = false
						continue
					}
					rv, rc := c.resolve(stripConv(t))
					if rc.Fn == df.LoopFn && rc.Depth == len(df.Chain) && rv == ssa.Value(df.OffsetPhi) {
						nTerms++
						continue
					}
					if rv != t || rc != c {
						collect(rv, rc)
						continue
					}
					okLin = false
				}
			}
			collect(idx.Index, vc)
			startOK = okLin && nTerms == 1 && k == size
			desc = "start index " + stripIDs(vc.path(idx.Index))
			base, bctx := vc.resolve(idx.X)
			bp := stripIDs(bctx.path(base))
			rb := stripIDs(df.idxCtx(a.E.rootCtx(df.Reader)).path(df.RecordIdx.X))
			if al, isAl := base.(*ssa.Alloc); isAl {
				if sts := cellStores(al); len(sts) == 1 {
					bp = stripIDs(bctx.path(sts[0].Val))
				}
			}
			if strings.TrimPrefix(bp, "&") == strings.TrimPrefix(rb, "&") {
				bufOK = true
			}
			desc += "; buffer " + bp + " (reader's buffer " + rb + ")"
		}
		for _, b := range bounds {
			// the bound is (derived from) this record's Len
			for _, e := range valueEdges(vc, b, dnfTrue()) {
				rv := stripConv(e.V)
				if u, ok := rv.(*ssa.UnOp); ok && u.Op == token.MUL {
					if fa, ok := u.X.(*ssa.FieldAddr); ok && fieldName(fa.X.Type(), fa.Field) == "Len" {
						pv, pc := e.Ctx.resolve(fa.X)
						if pc.Fn == df.LoopFn && pc.Depth == len(df.Chain) && pv == df.RecordConv || pv == df.ConvInner {
							lenOK = true
						}
					}
				}
			}
		}
		a.R.ob("C08.3", "entry:bytes", "the entry name is the byte range [offset+Sizeof(InotifyEvent), +record.Len) of the buffer the record itself was read from", a.P.instrPos(cv),
			startOK && lenOK && bufOK, sprintf("start=offset+%d: %v; bounded by this record's Len: %v; same buffer: %v; %s", size, startOK, lenOK, bufOK, desc))
	}
	if n == 0 {
		a.R.ob("C08.3", "entry:bytes", "the entry name is cut from the kernel buffer inside the handler", a.P.pos(df.Handler.Pos()), false, "no conversion of a byte slice to string found below the handler (unrecognised idiom)")
	}
	_ = hctx
}

// nulScanLoop: the high bound of sl is a loop variable of a loop in fn that tests bytes of the same slice against 0.
func nulScanLoop(fn *ssa.Function, sl *ssa.Slice) bool {
	ph, isPhi := stripConv(sl.High).(*ssa.Phi)
	if !isPhi {
		return false
	}
	var loop *Loop
	for _, l := range naturalLoops(fn) {
		if l.Header == ph.Block() {
			loop = l
		}
	}
	if loop == nil {
		return false
	}
	isByteTest := func(v ssa.Value) bool {
		for {
			if u, ok := v.(*ssa.UnOp); ok && u.Op == token.NOT {
				v = u.X
				continue
			}
			break
		}
		bo, ok := v.(*ssa.BinOp)
		if !ok || (bo.Op != token.EQL && bo.Op != token.NEQ) {
			return false
		}
		for _, pair := range [][2]ssa.Value{{bo.X, bo.Y}, {bo.Y, bo.X}} {
			k, isK := constUint(pair[1])
			if !isK || k != 0 {
				continue
			}
			if ld, isLd := stripConv(pair[0]).(*ssa.UnOp); isLd && ld.Op == token.MUL {
				if ia, isIA := ld.X.(*ssa.IndexAddr); isIA && ia.X == sl.X {
					return true
				}
			}
		}
		return false
	}
	isBoundTest := func(v ssa.Value) bool {
		bo, ok := v.(*ssa.BinOp)
		if !ok {
			return false
		}
		switch bo.Op {
		case token.GTR, token.LSS, token.GEQ, token.LEQ, token.NEQ, token.EQL:
		default:
			return false
		}
		for _, pair := range [][2]ssa.Value{{bo.X, bo.Y}, {bo.Y, bo.X}} {
			if stripConv(pair[0]) == ssa.Value(ph) {
				if k, isK := constUint(pair[1]); isK && k == 0 {
					return true
				}
			}
		}
		return false
	}
	sawByte := false
	for _, ex := range loop.exits() {
		iff, ok := ex.From.Instrs[len(ex.From.Instrs)-1].(*ssa.If)
		if !ok {
			return false
		}
		switch {
		case isByteTest(iff.Cond):
			sawByte = true
		case isBoundTest(iff.Cond):
		default:
			return false // the scan can stop for another reason (a counter, a limit): trailing NULs may survive
		}
	}
	return sawByte
}

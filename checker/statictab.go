package main

// Static data tables: package-level arrays/slices of structs initialised with constants only and never written
// afterwards. A loop over such a table with `if input & row.flag != 0 { acc |= row.value }` is the data-driven spelling
// of an if-chain; E-D reads the rows from the package initialiser.

import (
	"fmt"
	"go/constant"
	"go/token"
	"go/types"
	"regexp"
	"strings"

	"golang.org/x/tools/go/ssa"
)

type staticRow map[string]*ssa.Const

// staticTable returns the rows of global g, or ok=false if g is not an immutable constant table.
func staticTable(p *Program, g *ssa.Global) ([]staticRow, bool) {
	init := p.Main.Func("init")
	if g.Pkg != p.Main || init == nil {
		return nil, false
	}
	rows := map[int64]staticRow{}
	max := int64(-1)
	// base addresses that denote the table's backing array: the global itself (array) or the array the global's slice points to
	bases := map[ssa.Value]bool{g: true}
	for _, b := range init.Blocks {
		for _, in := range b.Instrs {
			if st, ok := in.(*ssa.Store); ok && st.Addr == ssa.Value(g) {
				if sl, ok := st.Val.(*ssa.Slice); ok {
					bases[sl.X] = true
				}
			}
		}
	}
	for _, b := range init.Blocks {
		for _, in := range b.Instrs {
			st, ok := in.(*ssa.Store)
			if !ok {
				continue
			}
			fa, ok := st.Addr.(*ssa.FieldAddr)
			if !ok {
				continue
			}
			ia, ok := fa.X.(*ssa.IndexAddr)
			if !ok || !bases[ia.X] {
				continue
			}
			idx, ok := constUint(ia.Index)
			if !ok {
				return nil, false
			}
			k, ok := st.Val.(*ssa.Const)
			if !ok {
				return nil, false
			}
			i := int64(idx)
			if rows[i] == nil {
				rows[i] = staticRow{}
			}
			rows[i][fieldName(fa.X.Type(), fa.Field)] = k
			if i > max {
				max = i
			}
		}
	}
	if max < 0 {
		return nil, false
	}
	// immutability: no store through the global outside the initialiser
	for f := range p.All {
		if !p.inModule(f) || f == init || isCtl(f) {
			continue
		}
		for _, b := range f.Blocks {
			for _, in := range b.Instrs {
				for _, op := range in.Operands(nil) {
					if op == nil || *op != ssa.Value(g) {
						continue
					}
					switch x := in.(type) {
					case *ssa.UnOp:
					case *ssa.IndexAddr:
						if hasStoreThrough(x) {
							return nil, false
						}
					case *ssa.Store:
						return nil, false
					case *ssa.DebugRef:
					default:
						_ = x
						return nil, false
					}
				}
			}
		}
	}
	out := make([]staticRow, max+1)
	for i := range out {
		out[i] = rows[int64(i)]
		if out[i] == nil {
			out[i] = staticRow{}
		}
	}
	return out, true
}

var tabElemRe = regexp.MustCompile(`^g:[A-Za-z0-9_]+\.([A-Za-z0-9_]+)\[[^\]]*\]\.([A-Za-z0-9_]+)$`)

// tableElem recognises the canonical path of "field F of an element of package table G".
func tableElem(p *Program, path string) (g *ssa.Global, field string, ok bool) {
	m := tabElemRe.FindStringSubmatch(stripIDs(path))
	if m == nil {
		return nil, "", false
	}
	gv, isG := p.Main.Members[m[1]].(*ssa.Global)
	if !isG {
		return nil, "", false
	}
	return gv, m[2], true
}

// staticMap: a package-level map with constant keys and values, filled in the package initialiser only (a map
// literal) and never written afterwards: its entries, keyed by the key's constant text ("c:<n>").
func staticMap(p *Program, g *ssa.Global) (map[string]*ssa.Const, bool) {
	init := p.Main.Func("init")
	if g.Pkg != p.Main || init == nil {
		return nil, false
	}
	if _, isMap := deref(g.Type()).Underlying().(*types.Map); !isMap {
		return nil, false
	}
	var mk ssa.Value
	for _, b := range init.Blocks {
		for _, in := range b.Instrs {
			if st, ok := in.(*ssa.Store); ok && st.Addr == ssa.Value(g) {
				if mk != nil {
					return nil, false
				}
				mk = st.Val
			}
		}
	}
	if _, ok := mk.(*ssa.MakeMap); !ok {
		return nil, false
	}
	out := map[string]*ssa.Const{}
	refs := mk.Referrers()
	if refs == nil {
		return nil, false
	}
	for _, r := range *refs {
		switch x := r.(type) {
		case *ssa.MapUpdate:
			k, ok1 := x.Key.(*ssa.Const)
			v, ok2 := x.Value.(*ssa.Const)
			if !ok1 || !ok2 {
				return nil, false
			}
			out[constStr(k)] = v
		case *ssa.Store, *ssa.DebugRef:
		default:
			return nil, false
		}
	}
	// immutability: outside the initialiser the global is only loaded, and the loaded map only looked up / ranged / len'd
	for f := range p.All {
		if !p.inModule(f) || f == init || isCtl(f) {
			continue
		}
		for _, b := range f.Blocks {
			for _, in := range b.Instrs {
				for _, op := range in.Operands(nil) {
					if op == nil || *op != ssa.Value(g) {
						continue
					}
					ld, ok := in.(*ssa.UnOp)
					if !ok {
						if _, dbg := in.(*ssa.DebugRef); dbg {
							continue
						}
						return nil, false
					}
					if lr := ld.Referrers(); lr != nil {
						for _, u := range *lr {
							switch y := u.(type) {
							case *ssa.Lookup, *ssa.Range, *ssa.DebugRef:
							case *ssa.Call:
								if bi, ok := y.Call.Value.(*ssa.Builtin); !ok || bi.Name() != "len" {
									return nil, false
								}
							default:
								return nil, false
							}
						}
					}
				}
			}
		}
	}
	return out, len(out) > 0
}

// tableGuard finds, in cond, the test "input & row.<flagField> != 0" (any) or "input & row.f == row.f" (all) for table g
// and returns the input subject and flag field.
func tableGuard(p *Program, cond DNF, g *ssa.Global) (subj, flagField string, ok bool) {
	subj, flagField, _, ok = tableGuard2(p, cond, g)
	return
}

// tableGuard2 also reports whether the test demands all of the row's bits (== row.f) or any of them (!= 0).
func tableGuard2(p *Program, cond DNF, g *ssa.Global) (subj, flagField string, all, ok bool) {
	for _, c := range cond {
		for _, l := range c {
			if l.A.Kind != AkCmp || l.A.Op != "==" {
				continue
			}
			s := stripIDs(l.A.Subj)
			k := stripIDs(l.A.K)
			if strings.HasPrefix(k, "(") && !strings.HasPrefix(s, "(") {
				s, k = k, s
			}
			if !strings.HasPrefix(s, "(") || !strings.HasSuffix(s, ")") {
				continue
			}
			parts := strings.SplitN(s[1:len(s)-1], "&", 2)
			if len(parts) != 2 {
				continue
			}
			for i := 0; i < 2; i++ {
				g2, f, isT := tableElem(p, parts[i])
				if !isT || g2 != g {
					continue
				}
				if l.Neg && k == "c:0" { // (in & row.f) != 0
					return parts[1-i], f, false, true
				}
				if !l.Neg && k == parts[i] { // (in & row.f) == row.f
					return parts[1-i], f, true, true
				}
			}
		}
	}
	return "", "", false, false
}

// expandTableRows: rows of `acc |= row.value` guarded by a test of the input against row.flag, for a constant table.
func expandTableRows(a *An, ctx *Ctx, b *ssa.BinOp, local DNF, pos string, in ssa.Instruction) ([]Row, bool, error) {
	if b.Op != token.OR {
		return nil, false, nil
	}
	for _, cand := range []ssa.Value{b.Y, b.X} {
		g, vf, isT := tableElem(a.P, ctx.path(cand))
		if !isT {
			continue
		}
		tab, okT := staticTable(a.P, g)
		subj, ff, allForm, okG := tableGuard2(a.P, local, g)
		if !okT || !okG {
			continue
		}
		var rows []Row
		for _, row := range tab {
			kv, ok1 := constU(row[vf])
			fv, ok2 := constU(row[ff])
			if !ok1 || !ok2 {
				return nil, true, fmt.Errorf("table %s has a non-integer row", g.Name())
			}
			at := &Atom{Subj: subj, Bits: fv}
			switch {
			case popcount(fv) == 1:
				at.Kind = AkBit
			case allForm:
				at.Kind = AkAll
			default:
				at.Kind = AkAny
			}
			rows = append(rows, Row{K: kv, Kind: "or", Cond: DNF{Conj{at.ID(): Lit{A: at}}}, Pos: pos + " (table " + g.Name() + ")", In: in})
		}
		return rows, true, nil
	}
	return nil, false, nil
}

func constU(k *ssa.Const) (uint64, bool) {
	if k == nil || k.Value == nil || k.Value.Kind() != constant.Int {
		return 0, false
	}
	return constUint(k)
}

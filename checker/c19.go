package main

import (
	"go/token"
	"go/types"
	"strings"

	"golang.org/x/tools/go/ssa"
)

func init() {
	register(&property{
		Meta: propMeta{
			ID:    "C19",
			Title: "Recursive watches report true paths and cover exactly their own tree",
			Explanation: "Rules over the SSA of the inotify backend with production folding OFF (the recursive mode, enabled only by tests today, is the subject). Decided: " +
				"(1) every subtree test is separator-bounded: each strings.HasPrefix whose operands are watch paths, path-table keys or event names has a prefix operand that ends in the separator by construction (x + \"/\") - an equality alternative for the directory itself is allowed - and a path rewrite keeps the suffix after the old prefix (new + old[len(prefix):]) instead of a first-occurrence string replace; " +
				"(2) a directory Create under a recursive watch reaches the registration of the new directory before the handler returns the event; " +
				"(3) a recursive Add rejects a non-directory root and registers every directory the walk yields, recursively flagged; " +
				"(4) renaming a directory moves the path-table keys of the rewritten entries (C12.3) and Remove of a recursive root deletes, besides the root, only entries below root + \"/\". " +
				"Not decided: true-path reporting after renames in general; the documented mkdir -p limitation.",
			Rule:        "one obligation per HasPrefix/Replace/TrimPrefix site on paths, per recursive-registration fact, per rewritten path store",
			Assumptions: []string{"go/types + go/ssa", "the path separator on the inotify backend is \"/\""},
			MinObl:      7,
		},
		Configs: tiered(linuxQuick, linuxAll),
		Run:     runC19,
	})
}

// ownsTables: the struct type declares one of the bookkeeping tables.
func ownsTables(a *An, n *types.Named) bool {
	for _, t := range a.Ro.Tables {
		if a.Ro.StructOf[t] == n {
			return true
		}
	}
	return false
}

func endsWithSep(c *Ctx, v ssa.Value) bool {
	rv, rc := c.resolve(v)
	if b, ok := rv.(*ssa.BinOp); ok && b.Op == token.ADD {
		if k, ok := b.Y.(*ssa.Const); ok && k.Value != nil {
			s := k.Value.ExactString()
			return s == `"/"` || strings.HasSuffix(s, `/"`)
		}
		return endsWithSep(rc, b.Y)
	}
	if k, ok := rv.(*ssa.Const); ok && k.Value != nil {
		return strings.HasSuffix(k.Value.ExactString(), `/"`)
	}
	return false
}

// c19Prefix: every prefix test / rewrite on paths in the backend.
func c19Prefix(a *An) {
	// (1) prefix tests
	n := 0
	for _, fn := range a.P.srcFuncs(a.P.Main) {
		// only code of the backend and of its bookkeeping type handles watch paths
		top := fn
		for top.Parent() != nil {
			top = top.Parent()
		}
		if top.Signature.Recv() == nil {
			continue
		}
		rt, _ := deref(top.Signature.Recv().Type()).(*types.Named)
		if rt == nil || (rt != a.Ro.Backend && !ownsTables(a, rt)) {
			continue
		}
		c := a.E.rootCtx(fn)
		for _, b := range fn.Blocks {
			for _, in := range b.Instrs {
				call, ok := in.(*ssa.Call)
				if !ok {
					continue
				}
				cal := call.Call.StaticCallee()
				if cal == nil {
					continue
				}
				switch fullName(cal) {
				case "strings.HasPrefix":
					n++
					ok2 := endsWithSep(c, call.Call.Args[1])
					a.R.ob("C19.1", "prefix-test@"+shortFn(fn), "a subtree test on paths is bounded by the separator (\"dir1\" must not match \"dir10\")", a.P.instrPos(call), ok2,
						"prefix operand: "+stripIDs(c.path(call.Call.Args[1])))
				case "strings.Replace", "strings.ReplaceAll", "strings.TrimPrefix":
					n++
					a.R.ob("C19.1", "prefix-rewrite@"+shortFn(fn), "a path is rewritten by cutting the old prefix at its length, not by a string replace/trim that can match elsewhere or across a name boundary", a.P.instrPos(call), false,
						fullName(cal)+" on "+stripIDs(c.path(call.Call.Args[0])))
				}
			}
		}
	}
	a.R.Sites += n
	if n == 0 {
		a.R.fail("no prefix test on paths found in the backend (vacuous: the recursive code was not recognised)")
	}
}

// isEventNameField: v reads the Name field of an Event value (before any resolution through what was stored there).
func isEventNameField(a *An, c *Ctx, v ssa.Value) bool {
	for i := 0; i < 4; i++ {
		switch x := stripConv(v).(type) {
		case *ssa.UnOp:
			if fa, ok := x.X.(*ssa.FieldAddr); ok {
				return fieldName(fa.X.Type(), fa.Field) == "Name" && types.Identical(deref(fa.X.Type()), a.Ro.Event)
			}
			return false
		case *ssa.Field:
			return fieldName(x.X.Type(), x.Field) == "Name" && types.Identical(x.X.Type(), a.Ro.Event)
		case *ssa.Parameter, *ssa.FreeVar:
			if b, ok := c.Bind[x]; ok && b.Val != nil {
				v, c = b.Val, b.Ctx
				continue
			}
			return false
		default:
			return false
		}
	}
	return false
}

// c19Suffix: a path asks for a recursive watch exactly when its last element is "...": the function that splits the
// request (string -> string, bool) answers true only under `filepath.Base(p) == "..."` and then yields filepath.Dir(p).
func c19Suffix(a *An) {
	n := 0
	for _, fn := range a.P.srcFuncs(a.P.Main) {
		sig := fn.Signature
		if sig.Recv() != nil || sig.Params().Len() != 1 || sig.Results().Len() != 2 || !isString(sig.Params().At(0).Type()) ||
			!isString(sig.Results().At(0).Type()) || !isBoolType(sig.Results().At(1).Type()) {
			continue
		}
		w := a.E.Walk(fn, WalkOpts{})
		for _, v := range w.Visits {
			r, ok := v.Instr.(*ssa.Return)
			if !ok || v.Ctx.Parent != nil {
				continue
			}
			for _, e := range valueEdges(v.Ctx, r.Results[1], v.Cond) {
				k, isK := e.V.(*ssa.Const)
				if !isK || k.Value == nil || k.Value.String() != "true" {
					continue
				}
				n++
				byBase, bad := e.Cond.everyConj(func(c Conj) bool {
					return c.has(func(l Lit) bool {
						return l.A.Kind == AkCmp && !l.Neg && l.A.Op == "==" && l.A.K == `c:"..."` && strings.Contains(stripIDs(l.A.Subj), "path/filepath.Base(")
					})
				})
				p0 := stripIDs(v.Ctx.path(r.Results[0]))
				okDir := strings.Contains(p0, "path/filepath.Dir(")
				wit := "true under filepath.Base(p) == \"...\", yielding " + tail(p0, 80)
				if !byBase {
					wit = "a recursive request is recognised under " + stripIDs(bad.String())
				}
				a.R.ob("C19.1", "recursive-request@"+fn.Name(), "a path requests a recursive watch exactly when its last element is \"...\" (not when it merely ends in three dots), and the watch is set on its parent", a.P.instrPos(r), byBase && okDir, wit)
			}
		}
	}
	if n == 0 {
		a.R.fail("anchor unresolved: the function that recognises a recursive request (string -> string, bool)")
	}
}

func runC19(p *Program, e *Engine, r *Result, tier string) {
	a := newAn(p, e, r, false) // folding off
	if a == nil {
		return
	}
	tf := findTables(a)
	df := decodeFacts(a)
	if tf == nil || df == nil {
		return
	}
	ro := a.Ro
	c19Prefix(a)
	c19Suffix(a)
	// (2) directory Create under a recursive watch registers the new directory
	_, hv, hctx := handlerVisits(a, df)
	if hctx == nil {
		a.R.fail("handler not inlined")
		return
	}
	aw := ro.API["AddWith"]
	var regFn *ssa.Function
	_ = hctx // the function on the Add flow that reaches inotify_add_watch and is also called by the handler
	// the innermost function below the handler that is also on the Add flow and reaches inotify_add_watch
	addFns := map[*ssa.Function]bool{}
	for _, v := range a.walk(aw).Visits {
		addFns[v.Ctx.Fn] = true
	}
	for _, v := range hv {
		if call, ok := v.Instr.(*ssa.Call); ok {
			if cal := v.Ctx.calleeOf(&call.Call); cal != nil && a.P.inMain(cal) && addFns[cal] && cal.Parent() == nil {
				for _, u := range hv {
					if u.Ctx.inChain(cal) {
						if c2 := visitCallee(u); c2 != nil && c2.Name() == "InotifyAddWatch" {
							if regFn == nil {
								regFn = cal
							}
						}
					}
				}
			}
		}
	}
	if regFn == nil {
		a.R.ob("C19.2", "new-dir:registered", "a directory created under a recursive watch is registered by the handler", a.P.pos(df.Handler.Pos()), false, "the handler reaches no inotify_add_watch")
	} else {
		isdir, _ := unixConst(a, "IN_ISDIR")
		_, opBy := opNames(a)
		for _, v := range hv {
			call, ok := v.Instr.(*ssa.Call)
			if !ok || v.Ctx.calleeOf(&call.Call) != regFn {
				continue
			}
			// guard: recursive ∧ ISDIR ∧ Create, nothing more (beyond the handler's translate guards)
			var trCond DNF
			for _, u := range hv {
				if c2, ok := u.Instr.(*ssa.Call); ok && u.Ctx == hctx {
					if cal := u.Ctx.calleeOf(&c2.Call); cal != nil && cal.Signature.Results().Len() == 1 && cal.Signature.Results().At(0).Type() == ro.Event.Obj().Type() {
						trCond = u.Cond
					}
				}
			}
			var recLit, dirLit, crLit *Lit
			for _, c := range v.Cond {
				for _, l := range c {
					ll := l
					switch {
					case l.A.Kind == AkBool && strings.HasSuffix(l.A.Subj, ".recurse") && !l.Neg:
						recLit = &ll
					case l.A.Kind == AkBit && l.A.Bits == isdir && !l.Neg:
						dirLit = &ll
					case l.A.Kind == AkBit && l.A.Bits == opBy["Create"] && isOpSubj(l.A) && !l.Neg:
						crLit = &ll
					}
				}
			}
			ok2 := false
			wit := "registration guard: " + stripIDs(v.Cond.String())
			if recLit != nil && dirLit != nil && crLit != nil && !trCond.isFalse() {
				T := trCond.andLit(*recLit).andLit(*dirLit).andLit(*crLit)
				h, ctr, err := implies(T, v.Cond)
				if err != nil {
					a.R.fail("%v", err)
				}
				ok2 = h
				if !h {
					wit = "a new directory is not registered when " + stripIDs(ctr)
				}
			}
			a.R.ob("C19.2", "new-dir:registered", "a directory Create under a recursive watch always reaches the registration of that directory before the event is returned", a.P.instrPos(call), ok2, wit)
			// arguments: the event's name, recursive flag true
			nameOK, recOK := false, false
			for _, arg := range call.Call.Args {
				if isString(arg.Type()) && (strings.HasSuffix(stripIDs(v.Ctx.path(arg)), ".Name") || isEventNameField(a, v.Ctx, arg)) {
					nameOK = true
				}
				if isBoolType(arg.Type()) {
					rv, _ := v.Ctx.resolve(arg)
					if k, ok := rv.(*ssa.Const); ok && k.Value != nil && k.Value.String() == "true" {
						recOK = true
					}
				}
			}
			a.R.ob("C19.2", "new-dir:args", "the new directory is registered under the event's own name and as part of the recursive watch", a.P.instrPos(call), nameOK && recOK, sprintf("name operand is the event name: %v; recursive flag true: %v", nameOK, recOK))
		}
	}
	// (3) recursive Add
	w := a.walk(aw)
	var walk *Visit
	for _, v := range w.Visits {
		if call, ok := v.Instr.(*ssa.Call); ok {
			if cal := v.Ctx.calleeOf(&call.Call); cal != nil && (fullName(cal) == "path/filepath.WalkDir" || fullName(cal) == "path/filepath.Walk") {
				walk = v
			}
		}
	}
	if walk == nil {
		a.R.ob("C19.3", "recursive-add:walk", "a recursive Add walks the tree", a.P.pos(aw.Pos()), false, "no filepath.WalkDir on the Add flow")
	} else {
		// inside the callback: a call reaching inotify_add_watch with recursive=true for directories; error for a non-directory root
		regs, rejects := 0, 0
		var regCond DNF
		for _, v := range w.Visits {
			if !v.Ctx.Callback && !(v.Ctx.Parent != nil && v.Ctx.Parent.Callback) {
				// only look inside the walk callback chain
				inCb := false
				for c := v.Ctx; c != nil; c = c.Parent {
					if c.Callback && c.Site == walk.Instr {
						inCb = true
					}
				}
				if !inCb {
					continue
				}
			}
			if cal := visitCallee(v); cal != nil && cal.Name() == "InotifyAddWatch" {
				regs++
				regCond = regCond.or(v.Cond)
			}
			if r, ok := v.Instr.(*ssa.Return); ok && v.Ctx.Callback && len(r.Results) == 1 {
				org := origins(v.Ctx, r.Results[0], 0)
				isDirNeg, _ := v.Cond.everyConj(func(c Conj) bool {
					return c.has(func(l Lit) bool { return l.A.Kind == AkPred && l.Neg && strings.Contains(l.A.Subj, "IsDir") })
				})
				for _, o := range org {
					if o == "call:fmt.Errorf" && isDirNeg {
						rejects++
					}
				}
			}
		}
		a.R.ob("C19.3", "recursive-add:registers", "every directory the walk yields is registered", a.P.instrPos(walk.Instr), regs >= 1, sprintf("%d registration(s) reachable inside the walk callback", regs))
		a.R.ob("C19.3", "recursive-add:rejects-file-root", "a recursive Add of a non-directory is rejected with an error", a.P.instrPos(walk.Instr), rejects >= 1, sprintf("%d error return(s) under !IsDir()", rejects))
	}
	// (4) shared rules
	for _, rd := range ro.Readers {
		c12PathStores(a, tf, rd, "C19.4")
		// the entries rewritten after a directory rename are selected by the separator-bounded prefix (any depth below the
		// renamed directory) or by equality with the renamed directory itself
		_, pathF := tf.watchFields()
		for _, v := range a.walk(rd).Visits {
			st, ok := v.Instr.(*ssa.Store)
			if !ok {
				continue
			}
			fa, ok := st.Addr.(*ssa.FieldAddr)
			if !ok || fieldName(fa.X.Type(), fa.Field) != pathF || a.Ro.StructOf[fieldOf(fa)] != tf.watchT {
				continue
			}
			base, bctx := v.Ctx.resolve(fa.X)
			if _, fresh := base.(*ssa.Alloc); fresh {
				continue
			}
			ep := bctx.path(base) + "." + pathF
			nPrefix := 0
			okSel, bad := v.Cond.everyConj(func(c Conj) bool {
				pre := c.has(func(l Lit) bool {
					return l.A.Kind == AkPred && !l.Neg && l.A.Callee != nil && fullName(l.A.Callee) == "strings.HasPrefix" && l.A.Call != nil &&
						l.A.Ctx.path(l.A.Call.Call.Args[0]) == ep && endsWithSep(l.A.Ctx, l.A.Call.Call.Args[1])
				})
				if pre {
					nPrefix++
					return true
				}
				return c.has(func(l Lit) bool {
					return l.A.Kind == AkCmp && !l.Neg && l.A.Op == "==" && (l.A.Subj == ep || l.A.K == ep)
				})
			})
			wit := "selected by path == old || HasPrefix(path, old + \"/\")"
			if !okSel {
				wit = "an entry is rewritten under " + stripIDs(bad.String())
			} else if nPrefix == 0 {
				okSel = false
				wit = "no separator-bounded prefix alternative: descendants deeper than one level are not rewritten"
			}
			a.R.ob("C19.4", "rename:descendants-at-any-depth", "after a directory rename every entry below it, at any depth, is rewritten (selected by the separator-bounded prefix)", a.P.instrPos(st), okSel, wit)
		}
	}
	c04RemoveExact(a, tf, ro.API["Remove"], "C19.4")
}

package main

import (
	"fmt"
	"go/token"
	"go/types"
	"os"
	"strings"

	"golang.org/x/tools/go/ssa"
)

func init() {
	register(&property{
		Meta: propMeta{
			ID:    "C18",
			Title: "kqueue: a watched directory reports each new entry once, then its changes",
			Explanation: "Narrow gating rules over the cross-compiled SSA of the kqueue backend (it cannot run here). Decided, and only this: " +
				"(1) the only event built in the backend with a constant Create operation is sent under 'name not seen before', and on every non-error continuation the name is then marked seen (so a second directory change does not report it again); " +
				"(2) adding a watch never sends an event (entries that exist when a directory is added are marked seen silently) - no event-send call is reachable from Add at all; " +
				"(3) for an event with Rename or Remove the reader clears the 'seen' mark of that name (a re-created name is new again), and for Remove of a non-directory it re-checks the name through the same create-if-new function; " +
				"(4) the translator reports under the link name when the watch was added through a symlink; " +
				"(5) the fflags -> Op translation is the documented table (shared with C15: Write, Chmod, Remove, Rename of entries are all reported); " +
				"(6) every release of a watch (path-table delete, from Remove or from the reader) also clears that name's 'seen' mark under the same condition; " +
				"(7) a Create synthesised under a Remove of the translated event is sent after that Remove on every path (Remove followed by Create). " +
				"NOT decided (most of the behavioural statement): the directory diff over histories, burst behaviour, kevent order - these depend on listing results and kevent timing, and no simulated kernel is run (that would be a different technique).",
			Rule:        "one obligation per synthetic-Create send, per seen-table update/delete site, per reader branch, per translator store",
			Assumptions: []string{"go/types + go/ssa"},
			MinObl:      10,
		},
		Configs: tiered(kqueueQuick, kqueueAll),
		Run:     runC18,
	})
}

func runC18(p *Program, e *Engine, r *Result, tier string) {
	a := newAn(p, e, r, true)
	if a == nil {
		return
	}
	kf := kqFind(a)
	if kf == nil {
		return
	}
	computeRemoval(a, kf)
	ro := a.Ro
	readsTableEngine = a.E
	// the seen table: a string-keyed set that is not the user table, written by a function taking (string, bool)
	var seenT *types.Var
	for _, t := range ro.Tables {
		m := t.Type().Underlying().(*types.Map)
		if isString(m.Key()) && isEmptyStruct(m.Elem()) && t != kf.userTable {
			seenT = t
		}
	}
	if seenT == nil {
		a.R.fail("anchor unresolved: the 'seen' table (string-keyed set other than the user table)")
		return
	}
	a.R.fact("seen table %s; user table %s", fieldStr(ro, seenT), fieldStr(ro, kf.userTable))
	_, opBy := opNames(a)
	reader := ro.Readers[0]
	w := a.walk(reader)
	// (1) synthetic Create sends
	var createFn *ssa.Function
	n := 0
	for _, v := range w.Visits {
		call, ok := v.Instr.(*ssa.Call)
		if !ok {
			continue
		}
		cal := v.Ctx.calleeOf(&call.Call)
		if cal == nil || !ro.isSendEvent(cal) {
			continue
		}
		arg := call.Call.Args[len(call.Call.Args)-1]
		// composite literal with constant Op?
		lit := false
		opConst := uint64(0)
		if ld, ok := arg.(*ssa.UnOp); ok {
			if al, ok := ld.X.(*ssa.Alloc); ok {
				if refs := al.Referrers(); refs != nil {
					for _, rr := range *refs {
						if fa, ok := rr.(*ssa.FieldAddr); ok && types.Identical(deref(fa.Type()), ro.Op) {
							if fr := fa.Referrers(); fr != nil {
								for _, u := range *fr {
									if st, ok := u.(*ssa.Store); ok && st.Addr == ssa.Value(fa) {
										if k, ok := constUint(st.Val); ok {
											lit, opConst = true, k
										}
									}
								}
							}
						}
					}
				}
			}
		}
		if !lit {
			continue
		}
		n++
		createFn = call.Parent()
		gated, bad := v.Cond.everyConj(func(c Conj) bool {
			return c.has(func(l Lit) bool {
				if l.A.Kind == AkPred && l.Neg && l.A.Callee != nil && readsTable(l.A.Callee, seenT) {
					return true
				}
				// the predicate inlined: !ok(seen[name])
				return l.A.Kind == AkOk && l.Neg && lookupInTable(l.A, []*types.Var{seenT})
			})
		})
		wit := "sent under !seenBefore"
		if !gated {
			wit = "a synthetic event is sent under " + stripIDs(bad.String())
		}
		// (9) the name of the synthesised Create is built from the event's name (which carries the user's spelling of a
		// symlinked directory) and the entry's name - never read back from the watch record, which holds the link target
		{
			recT := kf.fdTable.Type().Underlying().(*types.Map).Elem()
			var nameV ssa.Value
			if ld, ok := arg.(*ssa.UnOp); ok {
				if al, ok := ld.X.(*ssa.Alloc); ok {
					if est, ok := deref(al.Type()).Underlying().(*types.Struct); ok {
						for i := 0; i < est.NumFields(); i++ {
							if est.Field(i).Name() == "Name" {
								if fs := localFieldStore(al, i); fs != nil {
									nameV = fs.Val
								}
							}
						}
					}
				}
			}
			var fromRecord []string
			seenN := map[cv]bool{}
			var rec func(c *Ctx, x ssa.Value, depth int)
			rec = func(c *Ctx, x ssa.Value, depth int) {
				if x == nil || depth > 25 || isEventNameField(a, c, x) {
					return
				}
				x = stripConv(x)
				if seenN[cv{c, x}] {
					return
				}
				seenN[cv{c, x}] = true
				isRec := func(t types.Type) bool { return types.Identical(deref(t), recT) }
				switch t := x.(type) {
				case *ssa.Parameter, *ssa.FreeVar:
					if b, ok := c.Bind[t]; ok && b.Val != nil {
						rec(b.Ctx, b.Val, depth+1)
					}
				case *ssa.Phi:
					for _, e := range t.Edges {
						rec(c, e, depth+1)
					}
				case *ssa.BinOp:
					rec(c, t.X, depth+1)
					rec(c, t.Y, depth+1)
				case *ssa.Field:
					if isRec(t.X.Type()) {
						fromRecord = append(fromRecord, stripIDs(c.path(t)))
					}
				case *ssa.UnOp:
					if fa, ok := t.X.(*ssa.FieldAddr); ok {
						if isRec(fa.X.Type()) {
							fromRecord = append(fromRecord, stripIDs(c.path(t)))
						}
						return
					}
					if rv, rc := c.resolve(t); rv != ssa.Value(t) || rc != c {
						rec(rc, rv, depth+1)
					}
				case *ssa.Call:
					if t.Call.IsInvoke() {
						return // DirEntry.Name(), FileInfo.Name(): the entry's own name
					}
					cal := c.calleeOf(&t.Call)
					if cal == nil {
						return
					}
					switch fullName(cal) {
					case "path/filepath.Join":
						if len(t.Call.Args) == 1 {
							sv, sc := c.resolve(t.Call.Args[0])
							if ins, _ := sliceInserted(sc, sv); len(ins) > 0 {
								for _, in := range ins {
									rec(in.c, in.v, depth+1)
								}
							}
						}
					case "path/filepath.Clean", "path/filepath.Dir", "path/filepath.Base":
						rec(c, t.Call.Args[0], depth+1)
					default:
						if a.P.inMain(cal) {
							if rv, rc := c.resolve(t); rv != ssa.Value(t) || rc != c {
								rec(rc, rv, depth+1)
							}
						}
					}
				}
			}
			if nameV != nil {
				rec(v.Ctx, nameV, 0)
			}
			a.R.ob("C18.9", "synthetic-create:named-by-event@"+shortFn(call.Parent()), "the synthesised Create is named from the event's name and the entry's name, not from the watch record (which holds the target of a symlinked directory, not the user's spelling)", a.P.instrPos(call),
				nameV != nil && len(fromRecord) == 0, "read from the watch record: "+fmtList(uniq(fromRecord)))
		}
		a.R.ob("C18.1", "synthetic-create:gated@"+shortFn(call.Parent()), "a Create synthesised from a directory listing is sent only for a name not seen before", a.P.instrPos(call), gated && opConst == opBy["Create"], wit)
		// followed by marking seen on the non-error continuation
		var mark DNF
		for _, u := range w.Visits {
			if mu, ok := u.Instr.(*ssa.MapUpdate); ok && u.Ctx.fieldOfValue(mu.Map) == seenT && u.Ctx.inChain(call.Parent()) && sameActivation(u.Ctx, v.Ctx, call.Parent()) {
				mark = mark.or(u.Cond)
			}
		}
		okMark := false
		mw := "no update of the seen table in " + shortFn(call.Parent())
		if !mark.isFalse() {
			// T: this send succeeded, and every package-local call of this activation that returns an error returned nil
			at, neg := v.Ctx.atom(call)
			T := v.Cond.andLit(Lit{A: at, Neg: neg})
			for _, u := range w.Visits {
				if u.Ctx != v.Ctx || u.Seq == v.Seq {
					continue
				}
				if c2, ok := u.Instr.(*ssa.Call); ok {
					if cal2 := u.Ctx.calleeOf(&c2.Call); cal2 != nil && a.P.inMain(cal2) && cal2.Signature.Results().Len() >= 1 && isErrorType(cal2.Signature.Results().At(cal2.Signature.Results().Len()-1).Type()) {
						sub := u.Ctx.path(c2)
						nres := cal2.Signature.Results().Len()
						if nres > 1 {
							sub += sprintf("#%d", nres-1)
						}
						// the error result as a value, so that "it is nil" is stated the way the branch conditions state it
						var errV ssa.Value = c2
						if nres > 1 {
							errV = nil
							if refs := c2.Referrers(); refs != nil {
								for _, rr := range *refs {
									if ex, ok := rr.(*ssa.Extract); ok && ex.Index == nres-1 {
										errV = ex
									}
								}
							}
						}
						if errV != nil {
							if d, ok := u.Ctx.resultDNF(errV, true, false); ok {
								T = safeAndDNF(T, d)
								continue
							}
							sub = u.Ctx.path(errV) // as the branch conditions name it (seen through single-return helpers)
						}
						T = T.andLit(Lit{A: &Atom{Kind: AkNil, Subj: sub}})
					}
				}
			}
			h, ctr, err := implies(T, mark)
			if err != nil {
				a.R.fail("%v", err)
			}
			if os.Getenv("VERIF_DEBUG") == "18" && !h {
				fmt.Fprintf(os.Stderr, "T=%s\nMARK=%s\n\n", stripIDs(T.String()), stripIDs(mark.String()))
			}
			okMark = h
			mw = "sent ∧ no error => name marked seen"
			if !h {
				mw = "the name is not marked seen when " + stripIDs(ctr)
			}
		}
		a.R.ob("C18.1", "synthetic-create:then-seen@"+shortFn(call.Parent()), "after reporting a new entry the name is marked seen on every non-error continuation (it is reported once)", a.P.instrPos(call), okMark, mw)
	}
	if n == 0 {
		a.R.fail("no synthetic Create send found in the reader (vacuous)")
	}
	// (2) no event send from Add
	sends := 0
	marks := 0
	for _, v := range a.walk(ro.API["AddWith"]).Visits {
		if cal := visitCallee(v); cal != nil && ro.isSendEvent(cal) {
			if _, isCall := v.Instr.(*ssa.Call); isCall {
				sends++
			}
		}
		if mu, ok := v.Instr.(*ssa.MapUpdate); ok && v.Ctx.fieldOfValue(mu.Map) == seenT {
			marks++
			if os.Getenv("C18DEBUG") != "" {
				println("C18DEBUG mark", a.P.instrPos(mu), stripIDs(v.Cond.String()))
			}
		}
	}
	a.R.ob("C18.2", "add:silent", "adding a watch sends no event (pre-existing entries are not reported)", a.P.pos(ro.API["AddWith"].Pos()), sends == 0, sprintf("%d event-send call(s) reachable from AddWith", sends))
	a.R.ob("C18.2", "add:marks-seen", "adding a directory marks its listed entries as seen", a.P.pos(ro.API["AddWith"].Pos()), marks >= 1, sprintf("%d seen-table update(s) reachable from AddWith", marks))
	// (3) reader clears seen on Rename/Remove
	var subj string
	var clear DNF
	var clearPos string
	for _, v := range w.Visits {
		if args, ok := isBuiltinCall(v.Instr, "delete"); ok && v.Ctx.fieldOfValue(args[0]) == seenT && v.Ctx.Parent != nil {
			// markSeen(name,false) called by the reader (at any depth), but not as part of a watch removal
			if kf.inRemoval(v.Ctx) {
				continue
			}
			clear = clear.or(v.Cond)
			clearPos = a.P.instrPos(v.Instr)
			for _, c := range v.Cond {
				for _, l := range c {
					if l.A.Kind == AkBit && isOpSubj(l.A) {
						subj = l.A.Subj
					}
				}
			}
		}
	}
	okClear := subj != "" && !clear.isFalse()
	var cw []string
	if okClear {
		for _, name := range []string{"Rename", "Remove"} {
			var ctx DNF
			for _, c := range clear {
				nc := Conj{}
				for k, l := range c {
					if l.A.Subj != subj && !(l.A.Kind == AkBool && strings.HasPrefix(l.A.Subj, "c:")) {
						nc[k] = l
					}
				}
				ctx = ctx.or(DNF{nc})
			}
			T := ctx.andLit(Lit{A: &Atom{Kind: AkBit, Subj: subj, Bits: opBy[name]}})
			h, ctr, err := implies(T, clear)
			if err != nil {
				a.R.fail("%v", err)
			}
			if !h {
				okClear = false
				cw = append(cw, "not cleared for "+name+" when "+stripIDs(ctr))
			}
		}
	}
	a.R.ob("C18.3", "reader:clears-seen", "for an event with Rename or Remove the reader clears the name's 'seen' mark (a name created again is new again)", clearPos, okClear, strings.Join(cw, "; "))
	recheck := false
	if createFn != nil {
		for _, v := range w.Visits {
			call, ok := v.Instr.(*ssa.Call)
			if !ok || v.Ctx.calleeOf(&call.Call) != createFn {
				continue
			}
			g, _ := v.Cond.everyConj(func(c Conj) bool {
				return c.has(func(l Lit) bool { return l.A.Kind == AkBit && !l.Neg && l.A.Bits == opBy["Remove"] }) &&
					c.has(func(l Lit) bool { return l.A.Kind == AkBool && l.Neg && strings.HasSuffix(l.A.Subj, ".isDir") })
			})
			if g {
				recheck = true
			}
		}
	}
	a.R.ob("C18.3", "reader:recheck-after-remove", "after Remove of a non-directory the reader re-checks the name through the create-if-new function (overwrite by rename)", a.P.pos(reader.Pos()), recheck, "")
	// (4) translator link name
	trs := findTranslators(a)
	linkOK := false
	if len(trs) == 1 {
		fn := trs[0].fn
		tw := a.E.Walk(fn, WalkOpts{})
		var strParams []*ssa.Parameter
		for _, prm := range fn.Params {
			if isString(prm.Type()) {
				strParams = append(strParams, prm)
			}
		}
		for _, v := range tw.Visits {
			st, ok := v.Instr.(*ssa.Store)
			if !ok {
				continue
			}
			fa, ok := st.Addr.(*ssa.FieldAddr)
			if !ok || fieldName(fa.X.Type(), fa.Field) != "Name" || len(strParams) < 2 {
				continue
			}
			// the stored name, through phis and small helpers: the second string parameter (the link name) under "it is
			// not empty"
			for _, e := range valueEdges(v.Ctx, st.Val, v.Cond) {
				ev, _ := e.Ctx.resolve(e.V)
				if ev != ssa.Value(strParams[1]) {
					continue
				}
				g, _ := e.Cond.everyConj(func(c Conj) bool {
					return c.has(func(l Lit) bool {
						return l.A.Kind == AkCmp && l.Neg && l.A.K == `c:""` && l.A.Subj == "p:"+strParams[1].Name()
					})
				})
				if g {
					linkOK = true
				}
			}
		}
	}
	a.R.ob("C18.4", "translator:link-name", "events for a watch added through a symlink are named after the link", "-", linkOK, "")
	// (5) Write, Chmod, Remove and Rename of entries are reported: the translation table is the documented one (shared with C15)
	c15Kqueue(a)
	for i := range a.R.Obligations {
		if a.R.Obligations[i].Rule == "C15.kqueue" {
			a.R.Obligations[i].Rule = "C18.5"
			a.R.Obligations[i].Key = "C18.5|" + strings.TrimPrefix(a.R.Obligations[i].Key, "C15.kqueue|")
		}
	}
	c18ReleaseClearsSeen(a, kf, seenT, reader, "C18.6")
	c18RemoveBeforeCreate(a, "C18.7")
	c18RescanDecision(a, kf, "C18.10")
	// (8) every descriptor the backend opens is registered for at least NOTE_DELETE and NOTE_RENAME: removal and rename of
	// an entry (file or subdirectory) are reported whatever else is asked for
	_, ntBy := nativeNames(a, "NOTE_")
	need := ntBy["NOTE_DELETE"] | ntBy["NOTE_RENAME"]
	nReg := 0
	for _, root := range []*ssa.Function{ro.API["AddWith"], reader} {
		if root == nil {
			continue
		}
		rw := a.walk(root)
		for _, v := range rw.Visits {
			call, ok := v.Instr.(*ssa.Call)
			if !ok {
				continue
			}
			cal := v.Ctx.calleeOf(&call.Call)
			if cal == nil || !a.P.inMain(cal) {
				continue
			}
			// the function that registers with the kernel queue: it calls kevent(2) itself, and this call asks for EV_ADD
			registers := false
			for _, b := range cal.Blocks {
				for _, in := range b.Instrs {
					if c2, ok := in.(*ssa.Call); ok {
						if f := c2.Call.StaticCallee(); f != nil && fullName(f) == "golang.org/x/sys/unix.Kevent" {
							registers = true
						}
					}
				}
			}
			if !registers {
				continue
			}
			_, evBy := nativeNames(a, "EV_")
			isAdd := false
			for _, arg := range call.Call.Args {
				if k, ok := v.Ctx.constUint(arg); ok && evBy["EV_ADD"] != 0 && k&evBy["EV_ADD"] != 0 && !isUint32(arg.Type()) {
					isAdd = true
				}
			}
			if !isAdd {
				continue
			}
			for _, arg := range call.Call.Args {
				if !isUint32(arg.Type()) {
					continue
				}
				nReg++
				// every way the mask can be built contains both bits
				var lacking []string
				seen := map[cv]bool{}
				var rec func(c *Ctx, x ssa.Value) uint64 // bits certainly present
				rec = func(c *Ctx, x ssa.Value) uint64 {
					rv, rc := c.resolve(stripConv(x))
					rv = stripConv(rv)
					key := cv{rc, rv}
					if seen[key] {
						return ^uint64(0)
					}
					seen[key] = true
					switch t := rv.(type) {
					case *ssa.Const:
						k, _ := constUint(t)
						return k
					case *ssa.BinOp:
						if t.Op == token.OR {
							return rec(rc, t.X) | rec(rc, t.Y)
						}
					case *ssa.Phi:
						all := ^uint64(0)
						for _, e := range t.Edges {
							all &= rec(rc, e)
						}
						return all
					}
					return 0
				}
				have := rec(v.Ctx, arg)
				if have&need != need {
					lacking = append(lacking, sprintf("mask %s certainly contains only %#x of NOTE_DELETE|NOTE_RENAME (%#x)", stripIDs(v.Ctx.path(arg)), have&need, need))
				}
				key := sprintf("%s:registers-delete-and-rename@%s", shortFn(root), shortFn(call.Parent()))
				a.R.ob("C18.8", key, "a descriptor is always registered for NOTE_DELETE and NOTE_RENAME (Remove and Rename of every watched entry are reported)", a.P.instrPos(call), len(lacking) == 0, strings.Join(lacking, "; "))
			}
		}
	}
	if nReg == 0 {
		a.R.fail("anchor unresolved: calls that register a descriptor with the kernel queue (EV_ADD)")
	}
}

func isUint32(t types.Type) bool {
	b, ok := t.Underlying().(*types.Basic)
	return ok && b.Kind() == types.Uint32
}

// c18RemoveBeforeCreate: a synthetic Create that the reader derives from a kevent reporting Remove (the removed name
// was taken over by another file) is sent after the Remove itself: "Remove followed by Create".
func c18RemoveBeforeCreate(a *An, rule string) {
	ro := a.Ro
	_, opBy := opNames(a)
	reader := ro.Readers[0]
	w := a.walk(reader)
	trs := findTranslators(a)
	if len(trs) != 1 {
		a.R.fail("anchor unresolved: translator (found %d)", len(trs))
		return
	}
	// sends of the translator's event, and sends of events built with a constant operation
	var translated, synthetic []*Visit
	for _, v := range w.Visits {
		call, ok := v.Instr.(*ssa.Call)
		if !ok {
			continue
		}
		cal := v.Ctx.calleeOf(&call.Call)
		if cal == nil || !ro.isSendEvent(cal) {
			continue
		}
		arg := call.Call.Args[len(call.Call.Args)-1]
		fromTr := false
		for _, e := range valueEdges(v.Ctx, arg, dnfTrue()) {
			ev := e.V
			if ld, ok := ev.(*ssa.UnOp); ok {
				if rv, _ := e.Ctx.resolve(ld); rv != nil {
					ev = rv
				}
			}
			if c2, ok := ev.(*ssa.Call); ok && e.Ctx.calleeOf(&c2.Call) == trs[0].fn {
				fromTr = true
			}
			if strings.Contains(stripIDs(e.Ctx.path(e.V)), shortFn(trs[0].fn)) {
				fromTr = true
			}
		}
		if fromTr {
			translated = append(translated, v)
		} else {
			synthetic = append(synthetic, v)
		}
	}
	if len(translated) == 0 {
		a.R.fail("anchor unresolved: the reader's send of the translated event")
		return
	}
	n := 0
	for _, s := range synthetic {
		// only those derived from a kevent that reports Remove
		underRemove, _ := s.Cond.everyConj(func(c Conj) bool {
			return c.has(func(l Lit) bool {
				return l.A.Kind == AkBit && !l.Neg && l.A.Bits == opBy["Remove"] && isOpSubj(l.A)
			})
		})
		if !underRemove {
			continue
		}
		n++
		first := false
		for _, t := range translated {
			if precedesAlways(t, s) {
				first = true
			}
		}
		a.R.ob(rule, "remove-before-create@"+shortFn(s.Instr.Parent()), "a Create synthesised because a removed name was taken over by another file is sent after the Remove of that name", a.P.instrPos(s.Instr), first,
			sprintf("%d send(s) of the translated event in the reader; one of them must come first on every path to this send", len(translated)))
	}
	if n == 0 {
		a.R.ob(rule, "remove-before-create", "the reader re-checks a removed name (synthetic Create under Remove)", a.P.pos(reader.Pos()), false, "no synthetic send under a Remove of the translated event found")
	}
}

// readsTable: fn looks table t up, directly or through package-local helpers it hands the table to.
func readsTable(fn *ssa.Function, t *types.Var) bool {
	for _, b := range fn.Blocks {
		for _, in := range b.Instrs {
			if lk, ok := in.(*ssa.Lookup); ok && fieldOf(lk.X) == t {
				return true
			}
		}
	}
	if readsTableEngine == nil {
		return false
	}
	for _, v := range readsTableEngine.Walk(fn, WalkOpts{NoCond: true}).Visits {
		if lk, ok := v.Instr.(*ssa.Lookup); ok && v.Ctx.fieldOfValue(lk.X) == t {
			return true
		}
	}
	return false
}

var readsTableEngine *Engine

// sameActivation: u happens in the same activation of fn as v (the nearest ancestor context of fn is shared).
func sameActivation(uc, vc *Ctx, fn *ssa.Function) bool {
	find := func(c *Ctx) *Ctx {
		for x := c; x != nil; x = x.Parent {
			if x.Fn == fn {
				return x
			}
		}
		return nil
	}
	a, b := find(uc), find(vc)
	return a != nil && a == b
}

// c18ReleaseClearsSeen: rule (6) of C18, shared with C01 (a Create lost after Remove and re-Add is a lost event).
func c18ReleaseClearsSeen(a *An, kf *kqFacts, seenT *types.Var, reader *ssa.Function, rule string) {
	ro := a.Ro
	// (6) when a watch's descriptor is released its name's 'seen' mark goes with it, unconditionally: afterwards nothing
	// hears about that file any more, so nobody could clear the mark when the name disappears and comes back
	for _, root := range []*ssa.Function{ro.API["Remove"], reader} {
		if root == nil {
			continue
		}
		rw := a.walk(root)
		seenDel := map[string]DNF{}
		for _, v := range rw.Visits {
			if args, ok := isBuiltinCall(v.Instr, "delete"); ok && v.Ctx.fieldOfValue(args[0]) == seenT {
				k := stripIDs(v.Ctx.path(args[1]))
				seenDel[k] = seenDel[k].or(v.Cond)
			}
		}
		done := map[string]bool{}
		for _, v := range rw.Visits {
			args, ok := isBuiltinCall(v.Instr, "delete")
			if !ok || v.Ctx.fieldOfValue(args[0]) != kf.pathTable {
				continue
			}
			k := stripIDs(v.Ctx.path(args[1]))
			key := sprintf("%s:release-clears-seen(%s)", shortFn(root), tail(stripCallArgs(k), 60))
			if done[key] {
				continue
			}
			done[key] = true
			okc, wit := false, "no delete of the seen mark for this name in this calling context"
			if d, have := seenDel[k]; have {
				h, ctr, err := implies(v.Cond, d)
				if err != nil {
					a.R.fail("%v", err)
				}
				okc, wit = h, "seen mark deleted whenever the path entry is"
				if !h {
					wit = "the seen mark survives the release when " + stripIDs(ctr)
				}
			}
			a.R.ob(rule, key, "releasing a watch (path-table delete) also clears the name's 'seen' mark, so that the name is new again if it comes back", a.P.instrPos(v.Instr), okc, wit)
		}
	}
}

// c18SeenTable: the 'seen' table of the kqueue backend (a string-keyed set that is not the user table).
func c18SeenTable(a *An, kf *kqFacts) *types.Var {
	var seenT *types.Var
	for _, t := range a.Ro.Tables {
		m := t.Type().Underlying().(*types.Map)
		if isString(m.Key()) && isEmptyStruct(m.Elem()) && t != kf.userTable {
			seenT = t
		}
	}
	return seenT
}

// c18RescanDecision (C18.10 / C02.7): when a directory that is already watched internally (as an entry of its parent)
// is added by the user, its existing entries must be listed and marked seen - otherwise the next change in it reports a
// Create for every file that was there all along. The decision reads the notification flags the watch had BEFORE this
// Add; the Add also overwrites those flags with the new ones. Rule: no bit test of the record's flags field reads a
// record that came back from a function that itself stores that field (the test would compare the new flags with
// themselves and never ask for the listing). The field is found by type (the one uint32 field of the descriptor table's
// record), the updaters by their store; nothing is taken by name.
func c18RescanDecision(a *An, kf *kqFacts, rule string) {
	m, ok := kf.fdTable.Type().Underlying().(*types.Map)
	if !ok {
		a.R.fail("anchor unresolved: descriptor table is not a map")
		return
	}
	rec, ok := m.Elem().Underlying().(*types.Struct)
	if !ok {
		a.R.fail("anchor unresolved: the descriptor table's record is not a struct")
		return
	}
	fIdx := -1
	for i := 0; i < rec.NumFields(); i++ {
		if b, isB := rec.Field(i).Type().Underlying().(*types.Basic); isB && b.Kind() == types.Uint32 {
			if fIdx >= 0 {
				a.R.fail("anchor unresolved: the watch record has more than one uint32 field (which one holds the directory's flags?)")
				return
			}
			fIdx = i
		}
	}
	if fIdx < 0 {
		a.R.fail("anchor unresolved: the flags field of the watch record")
		return
	}
	isRec := func(t types.Type) bool { return types.Identical(deref(t).Underlying(), rec) }
	// updaters: functions that store the flags field and hand a record back
	updaters := map[*ssa.Function]bool{}
	for _, fn := range a.P.srcFuncs(a.P.Main) {
		stores := false
		for _, b := range fn.Blocks {
			for _, in := range b.Instrs {
				if st, isSt := in.(*ssa.Store); isSt {
					if fa, isFA := st.Addr.(*ssa.FieldAddr); isFA && fa.Field == fIdx && isRec(fa.X.Type()) {
						if _, isK := stripConv(st.Val).(*ssa.Const); !isK {
							stores = true
						}
					}
				}
			}
		}
		if !stores {
			continue
		}
		res := fn.Signature.Results()
		for i := 0; i < res.Len(); i++ {
			if isRec(res.At(i).Type()) {
				updaters[fn] = true
			}
		}
	}
	fromUpdater := func(v ssa.Value) *ssa.Function {
		v = stripConv(v)
		if ex, isEx := v.(*ssa.Extract); isEx {
			v = ex.Tuple
		}
		if u, isU := v.(*ssa.UnOp); isU && u.Op == token.MUL {
			v = u.X
		}
		if c, isC := v.(*ssa.Call); isC && c.Call.StaticCallee() != nil && updaters[c.Call.StaticCallee()] {
			return c.Call.StaticCallee()
		}
		return nil
	}
	n := 0
	for _, fn := range a.P.srcFuncs(a.P.Main) {
		if updaters[fn] {
			continue
		}
		for _, b := range fn.Blocks {
			for _, in := range b.Instrs {
				bin, isBin := in.(*ssa.BinOp)
				if !isBin || bin.Op != token.AND {
					continue
				}
				for _, opnd := range []ssa.Value{bin.X, bin.Y} {
					opnd = stripConv(opnd)
					var base ssa.Value
					var load ssa.Instruction
					switch x := opnd.(type) {
					case *ssa.Field:
						if x.Field == fIdx && isRec(x.X.Type()) {
							base, load = x.X, x
						}
					case *ssa.UnOp:
						if fa, isFA := x.X.(*ssa.FieldAddr); isFA && x.Op == token.MUL && fa.Field == fIdx && isRec(fa.X.Type()) {
							base, load = fa.X, x
						}
					}
					if base == nil {
						continue
					}
					n++
					var culprit *ssa.Function
					if al, isAl := base.(*ssa.Alloc); isAl {
						// the record is a local variable: any whole-record store of an updater's result that can reach this load
						if refs := al.Referrers(); refs != nil {
							for _, r := range *refs {
								st, isSt := r.(*ssa.Store)
								if !isSt || st.Addr != ssa.Value(al) {
									continue
								}
								if u := fromUpdater(st.Val); u != nil {
									if st.Block() == load.Block() {
										for _, q := range st.Block().Instrs {
											if q == ssa.Instruction(st) {
												culprit = u
												break
											}
											if q == load {
												break
											}
										}
										if culprit == nil {
											for _, sc := range st.Block().Succs {
												if reachableFrom(sc, load.Block()) {
													culprit = u // round a loop
												}
											}
										}
									} else if reachableFrom(st.Block(), load.Block()) {
										culprit = u
									}
								}
							}
						}
					} else if u := fromUpdater(base); u != nil {
						culprit = u
					}
					wit := "the record tested is not the one handed back by a function that overwrites the flags"
					if culprit != nil {
						wit = "the flags tested come back from " + shortFn(culprit) + ", which has just stored the new flags into them: the test compares the new flags with themselves"
					}
					a.R.ob(rule, "flags-test@"+shortFn(fn), "a test of a watch's previous notification flags (the decision to list an already watched directory and mark its entries seen) reads them as they were before this Add overwrote them", a.P.instrPos(bin), culprit == nil, wit)
				}
			}
		}
	}
	if n == 0 {
		a.R.fail("anchor unresolved: no bit test of the watch record's flags field (the rescan decision of Add)")
	}
}

package main

import (
	"os"
	"go/token"
	"strconv"
	"strings"

	"golang.org/x/tools/go/ssa"
)

var edgeDebug = os.Getenv("EDGEDEBUG") != ""

// ValEdge is one possible source of a value together with the condition under which it is chosen.
// Cond is the conjunction of the function-local conditions crossed on the way (phi edges, returns of inlined callees);
// atoms are expressed through each context's bindings, so parameters of helpers read as the caller's values.
type ValEdge struct {
	V    ssa.Value
	Ctx  *Ctx
	Cond DNF
}

// valueEdges expands v (in ctx) through phis and through the returns of module-local callees into its sources.
func valueEdges(c *Ctx, v ssa.Value, cond DNF) []ValEdge {
	var out []ValEdge
	seen := map[ssa.Value]bool{}
	var rec func(c *Ctx, v ssa.Value, cond DNF, depth int)
	rec = func(c *Ctx, v ssa.Value, cond DNF, depth int) {
		if depth > 10 {
			out = append(out, ValEdge{v, c, cond})
			return
		}
		rv, rc := c.resolve(v)
		switch x := rv.(type) {
		case *ssa.Phi:
			if rc.condBusy {
				// the phi belongs to a function whose conditions are being computed right now: leave it opaque
				out = append(out, ValEdge{rv, rc, cond})
				return
			}
			if seen[x] {
				return
			}
			seen[x] = true
			for i, e := range x.Edges {
				ec := phiEdgeCond(rc, x, i)
				if edgeDebug {
					println("EDGEDEBUG phi", rc.path(x), "edge", i, rc.path(e), "ec:", ec.String(), "cond:", cond.String())
				}
				if ec.isFalse() {
					continue
				}
				// a loop-carried phi: on a back edge, what the loop body tested about the phi concerns the value of the
				// PREVIOUS iteration (`if failed == nil { failed = err }`), not the value the phi has afterwards; such
				// literals must not meet the caller's facts about the final value. Dropping them weakens the edge
				// condition (the source stays possible), which is the sound direction for a may-source enumeration.
				if blk := x.Block(); i < len(blk.Preds) && blk.Dominates(blk.Preds[i]) {
					self := rc.path(x)
					var weak DNF
					for _, cj := range ec {
						nc := Conj{}
						for id, l := range cj {
							if strings.Contains(l.A.Subj, self) {
								continue
							}
							nc[id] = l
						}
						weak = append(weak, nc)
					}
					ec = weak
				}
				full := safeAndDNF(cond, ec)
				// what is known about the phi (nil / non-nil) holds for the value chosen on this edge
				pp := rc.path(x)
				ep := rc.path(e)
				var refined DNF
				for _, cj := range full {
					nc := cj
					for id, l := range cj {
						if l.A.Kind == AkNil && l.A.Subj == pp && nc != nil {
							// on this edge the phi IS the edge value: restate the literal about that value
							nn := nc.clone()
							delete(nn, id)
							if isNilConst(e) {
								if l.Neg {
									nc = nil
								} else {
									nc = nn
								}
								continue
							}
							nc = nn.and(Lit{A: &Atom{Kind: AkNil, Subj: ep, V: e, Ctx: rc}, Neg: l.Neg})
						}
					}
					if nc != nil {
						refined = append(refined, nc)
					}
				}
				if refined.isFalse() {
					continue
				}
				rec(rc, e, refined, depth+1)
			}
			return
		case *ssa.Extract:
			if call, ok := x.Tuple.(*ssa.Call); ok {
				if expandCall(rc, call, x.Index, cond, depth, rec) {
					return
				}
			}
		case *ssa.Call:
			if x.Call.Signature().Results().Len() == 1 {
				if expandCall(rc, x, 0, cond, depth, rec) {
					return
				}
			}
		case *ssa.MakeInterface:
			rec(rc, x.X, cond, depth+1)
			return
		case *ssa.UnOp:
			// a load of a local variable with several assignments (a named result, an accumulator set on some paths):
			// one edge per reaching definition, with the condition under which it is the one that reaches
			if al, isAl := x.X.(*ssa.Alloc); isAl && x.Op == token.MUL && !rc.condBusy {
				if defs, ok := rc.cellDefs(al, x); ok {
					for _, d := range defs {
						full := safeAndDNF(cond, d.Cond)
						if full.isFalse() {
							continue
						}
						if d.Store == nil {
							out = append(out, ValEdge{zeroConst(deref(al.Type())), rc, full})
							continue
						}
						rec(rc, d.Store.Val, full, depth+1)
					}
					return
				}
			}
		}
		out = append(out, ValEdge{rv, rc, cond})
	}
	rec(c, v, cond, 0)
	return out
}

func expandCall(c *Ctx, call *ssa.Call, idx int, cond DNF, depth int, rec func(*Ctx, ssa.Value, DNF, int)) bool {
	k := c.calleeCtx(call, &call.Call)
	if k == nil || c.E.NoExpand[k.Fn] {
		return false
	}
	conds, err := k.conds()
	if err != nil {
		return false
	}
	// functions with deferred closures may rewrite named results: not expanded
	n := 0
	for _, b := range k.Fn.Blocks {
		r, ok := b.Instrs[len(b.Instrs)-1].(*ssa.Return)
		if !ok || idx >= len(r.Results) {
			continue
		}
		d, live := conds[b]
		if !live || d.isFalse() {
			continue
		}
		n++
		full := safeAndDNF(cond, d)
		// literals of the site condition that speak about this call's results are decided by the return taken
		cp := c.path(call)
		var refined DNF
		for _, cj := range full {
			nc := cj
			for id, l := range cj {
				if nc == nil {
					break
				}
				if l.A.Kind != AkNil || !strings.HasPrefix(l.A.Subj, cp) {
					continue
				}
				j := -1
				rest := strings.TrimPrefix(l.A.Subj, cp)
				if rest == "" && len(r.Results) == 1 {
					j = 0
				} else if strings.HasPrefix(rest, "#") {
					if n, err := strconv.Atoi(rest[1:]); err == nil {
						j = n
					}
				}
				if j < 0 || j >= len(r.Results) {
					continue
				}
				rv, rvc := k.resolve(r.Results[j])
				known, isNil := false, false
				if isNilConst(rv) {
					known, isNil = true, true
				}
				switch rv.(type) {
				case *ssa.Alloc, *ssa.MakeInterface, *ssa.MakeClosure, *ssa.MakeMap, *ssa.MakeSlice:
					known, isNil = true, false
				}
				nn := nc.clone()
				delete(nn, id)
				if known {
					if isNil == l.Neg { // literal contradicts what this return yields
						nc = nil
						break
					}
					nc = nn
					continue
				}
				nc = nn.and(Lit{A: &Atom{Kind: AkNil, Subj: rvc.path(rv), V: rv, Ctx: rvc}, Neg: l.Neg})
			}
			if nc != nil {
				refined = append(refined, nc)
			}
		}
		if refined.isFalse() {
			continue
		}
		rec(k, r.Results[idx], refined, depth+1)
	}
	return n > 0
}

func safeAndDNF(a, b DNF) (r DNF) {
	defer func() {
		if x := recover(); x != nil {
			r = a
		}
	}()
	return a.and(b)
}

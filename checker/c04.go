package main

import (
	"go/types"
	"strings"

	"golang.org/x/tools/go/ssa"
)

func init() {
	register(&property{
		Meta: propMeta{
			ID:    "C04",
			Title: "Watch-set semantics: Add, Remove and WatchList obey the sequential spec",
			Explanation: "Rules over every table mutation of the inotify backend in every calling context (API Add/Remove and the reader). Decided: " +
				"(1) a failed Add changes nothing: every table update/delete and every store to a field of an existing watch in the Add flow is dominated by success of inotify_add_watch; " +
				"(2) Remove of an unlisted path returns an error wrapping ErrNonExistentWatch before any delete; " +
				"(3) the two tables stay mutually inverse: every delete/update on one table is matched, under an equivalent reaching condition, by the corresponding operation on the other table for the same entry (so no dangling entry, hence no nil dereference in Remove); " +
				"(4) an alias (same kernel wd) returns the existing entry and the Add flow never rewrites the path of an existing entry (first name wins); " +
				"(5) every path-table key on the Add and Remove flows is filepath.Clean of the API argument (or the path stored in an existing entry); " +
				"(6) Remove deletes only the named entry unless the watch is recursive; WatchList returns exactly the path table's keys; " +
				"(7) re-adding a listed path whose descriptor changed releases the old entry (both tables and inotify_rm_watch) on every path, and a descriptor already in the wd table always resolves to its existing entry. " +
				"Not decided: symlink/hard-link resolution (kernel wd identity); sequences as such.",
			Rule:        "one obligation per table mutation and calling root, per Add-flow effect, per Remove delete, per path-table key; non-trivial = the mutation is reachable",
			Assumptions: []string{"go/types + go/ssa", "callbacks run synchronously in their caller", "production folding (E-F)"},
			MinObl:      15,
		},
		Configs: tiered(linuxQuick, linuxAll),
		Run:     runC04,
	})
}

func runC04(p *Program, e *Engine, r *Result, tier string) {
	a := newAn(p, e, r, true)
	if a == nil {
		return
	}
	tf := findTables(a)
	if tf == nil {
		return
	}
	ro := a.Ro
	addWith, rm := ro.API["AddWith"], ro.API["Remove"]
	if !a.require(addWith != nil && rm != nil, "AddWith/Remove") {
		return
	}
	c04FailedAdd(a, tf, addWith)
	c04RemoveUnlisted(a, tf, rm)
	for _, root := range []*ssa.Function{addWith, rm} {
		pairTables(a, tf, root, "C04.3")
	}
	for _, rd := range ro.Readers {
		pairTables(a, tf, rd, "C04.3")
		c12PathStores(a, tf, rd, "C04.3")
	}
	c04Alias(a, tf, addWith)
	c04Replace(a, tf, addWith, "C04.7")
	c04Normaliser(a, tf, []*ssa.Function{addWith, rm})
	c04RemoveExact(a, tf, rm, "C04.6")
	c04WatchList(a, tf)
	c07Deref(a, "C04.3n")
}

// addWatchCalls: visits of unix.InotifyAddWatch under root.
func syscallVisits(a *An, w *Walker, name string) []*Visit {
	var out []*Visit
	for _, v := range w.Visits {
		if call, ok := v.Instr.(*ssa.Call); ok {
			if cal := v.Ctx.calleeOf(&call.Call); cal != nil && cal.Name() == name {
				if pk := fnPkg(cal); pk != nil && strings.HasPrefix(pk.Pkg.Path(), "golang.org/x/sys/") {
					out = append(out, v)
				}
			}
		}
	}
	return out
}

// successLits: literals stating that the syscall visited at call succeeded, in the form the code tests (wd != -1).
func successLits(call *Visit) []Lit {
	cp := call.Ctx.path(call.Instr.(*ssa.Call))
	return []Lit{{A: &Atom{Kind: AkCmp, Subj: cp + "#0", Op: "==", K: "c:-1"}, Neg: true}}
}

// c04Replace: on the Add flow, a listed path whose descriptor changed has its old entry released (tables and kernel).
func c04Replace(a *An, tf *tableFacts, addWith *ssa.Function, rule string) {
	w := a.walk(addWith)
	adds := syscallVisits(a, w, "InotifyAddWatch")
	if len(adds) != 1 {
		return
	}
	kctx := adds[0].Ctx
	wdF, _ := tf.watchFields()
	wdPath := kctx.path(adds[0].Instr.(*ssa.Call)) + "#0"
	// the callback's parameter of type *watch: the entry currently listed under the path
	var existing *ssa.Parameter
	for _, p := range kctx.Fn.Params {
		if pt, ok := p.Type().Underlying().(*types.Pointer); ok && types.Identical(pt.Elem(), tf.watchT) {
			existing = p
		}
	}
	if existing == nil {
		a.R.ob(rule, "replace:existing-param", "the registration callback receives the entry currently listed under the path", a.P.pos(kctx.Fn.Pos()), false, "no *watch parameter")
		return
	}
	var entry DNF
	for _, v := range w.Visits {
		if v.Ctx == kctx {
			entry = v.Cond
			break
		}
	}
	ep := kctx.path(existing)
	T := entry.andLit(Lit{A: &Atom{Kind: AkNil, Subj: ep}, Neg: true})
	for _, l := range successLits(adds[0]) {
		T = T.andLit(l)
	}
	T = T.andLit(Lit{A: &Atom{Kind: AkCmp, Subj: ep + "." + wdF, Op: "==", K: wdPath}, Neg: true})
	ops := collectTableOps(a, tf, w)
	var delWd, delPath, rm DNF
	_, pathF := tf.watchFields()
	for _, op := range ops {
		if op.Kind != "delete" {
			continue
		}
		if op.Table == tf.wdTable && op.Key == stripIDs(ep)+"."+wdF {
			delWd = delWd.or(op.V.Cond)
		}
		if op.Table == tf.pathTable && op.Key == stripIDs(ep)+"."+pathF {
			delPath = delPath.or(op.V.Cond)
		}
	}
	for _, v := range syscallVisits(a, w, "InotifyRmWatch") {
		call := v.Instr.(*ssa.Call)
		if stripIDs(v.Ctx.path(call.Call.Args[1])) == stripIDs(ep)+"."+wdF {
			rm = rm.or(v.Cond)
		}
	}
	for _, e := range []struct {
		name string
		d    DNF
	}{{"wd-table entry deleted", delWd}, {"path-table entry deleted", delPath}, {"inotify_rm_watch on the old descriptor", rm}} {
		ok, wit := false, "no such effect on the Add flow"
		if !e.d.isFalse() {
			h, ctr, err := implies(T, e.d)
			if err != nil {
				a.R.fail("%v", err)
			}
			ok = h
			wit = "listed ∧ success ∧ descriptor changed => " + e.name
			if !h {
				wit = "the old watch is kept when " + stripIDs(ctr)
			}
		}
		a.R.ob(rule, "replace:"+strings.Fields(e.name)[0], "re-adding a listed path that now names another file releases the old watch on every path: "+e.name, a.P.instrPos(adds[0].Instr), ok, wit)
	}
}

// successLit: the condition "this syscall succeeded" appears in conjunct c.
func successOf(call *Visit) func(Lit) bool {
	cp := call.Ctx.path(call.Instr.(*ssa.Call))
	return func(l Lit) bool {
		// wd != -1   or  err == nil
		if l.A.Kind == AkCmp && l.Neg && l.A.Op == "==" && l.A.Subj == cp+"#0" && l.A.K == "c:-1" {
			return true
		}
		if l.A.Kind == AkNil && !l.Neg && l.A.Subj == cp+"#1" {
			return true
		}
		return false
	}
}

func c04FailedAdd(a *An, tf *tableFacts, addWith *ssa.Function) {
	w := a.walk(addWith)
	adds := syscallVisits(a, w, "InotifyAddWatch")
	if len(adds) != 1 {
		a.R.fail("anchor unresolved: exactly one inotify_add_watch call on the Add flow (found %d)", len(adds))
		return
	}
	direct := successOf(adds[0])
	// success may also be known through the result of the registration callback: a literal "callback's error is nil" /
	// "callback's entry is non-nil" implies success when every return of the callback compatible with it is itself
	// dominated by success.
	succ := func(l Lit) bool {
		if direct(l) {
			return true
		}
		return resultImplies(l, direct)
	}
	ops := collectTableOps(a, tf, w)
	n := 0
	for _, op := range ops {
		n++
		ok, bad := op.V.Cond.everyConj(func(c Conj) bool { return c.has(succ) })
		wit := "dominated by success of inotify_add_watch"
		if !ok {
			wit = "reachable without a successful inotify_add_watch under " + stripIDs(bad.String())
		}
		a.R.ob("C04.1", sprintf("add-flow:%s(%s[%s])", op.Kind, op.Table.Name(), tail(stripCallArgs(op.Key), 60)), "on the Add flow a table is modified only after inotify_add_watch succeeded (a failed Add leaves the set untouched)",
			a.P.instrPos(op.V.Instr), ok, wit)
	}
	// stores to fields of existing (non-fresh) watches
	for _, v := range w.Visits {
		st, ok := v.Instr.(*ssa.Store)
		if !ok {
			continue
		}
		fa, ok := st.Addr.(*ssa.FieldAddr)
		if !ok {
			continue
		}
		f := fieldOf(fa)
		if a.Ro.StructOf[f] != tf.watchT {
			continue
		}
		base, _ := v.Ctx.resolve(fa.X)
		if _, fresh := base.(*ssa.Alloc); fresh {
			continue
		}
		n++
		ok2, bad := v.Cond.everyConj(func(c Conj) bool { return c.has(succ) })
		wit := "dominated by success of inotify_add_watch"
		if !ok2 {
			wit = "reachable without a successful inotify_add_watch under " + stripIDs(bad.String())
		}
		a.R.ob("C04.1", "add-flow:store(watch."+f.Name()+")", "on the Add flow an existing watch is modified only after inotify_add_watch succeeded", a.P.instrPos(st), ok2, wit)
	}
	if n == 0 {
		a.R.fail("no table mutation on the Add flow (vacuous)")
	}
}

// resultImplies: literal l is nil(call#i) / !nil(call#i) on the result of an inlinable call, and every return of the
// callee that is compatible with l carries `need` in every conjunct of its (callee-local) reaching condition.
func resultImplies(l Lit, need func(Lit) bool) bool {
	if l.A.Kind != AkNil || l.A.V == nil {
		return false
	}
	ex, ok := l.A.V.(*ssa.Extract)
	var call *ssa.Call
	idx := 0
	if ok {
		call, _ = ex.Tuple.(*ssa.Call)
		idx = ex.Index
	} else {
		call, _ = l.A.V.(*ssa.Call)
	}
	if call == nil {
		return false
	}
	k := l.A.Ctx.calleeCtx(call, &call.Call)
	if k == nil {
		return false
	}
	conds, err := k.conds()
	if err != nil {
		return false
	}
	n := 0
	for _, b := range k.Fn.Blocks {
		r, ok := b.Instrs[len(b.Instrs)-1].(*ssa.Return)
		if !ok || idx >= len(r.Results) {
			continue
		}
		d, live := conds[b]
		if !live || d.isFalse() {
			continue
		}
		rv, _ := k.resolve(r.Results[idx])
		knownNil := isNilConst(rv)
		knownNonNil := false
		switch x := rv.(type) {
		case *ssa.Alloc, *ssa.MakeInterface, *ssa.MakeClosure, *ssa.MakeMap, *ssa.MakeSlice:
			knownNonNil = true
			_ = x
		}
		if l.Neg && knownNil { // l says non-nil: this return is excluded
			continue
		}
		if !l.Neg && knownNonNil {
			continue
		}
		n++
		ok2, _ := d.everyConj(func(c Conj) bool { return c.has(need) })
		if !ok2 {
			return false
		}
	}
	return n > 0
}

func c04RemoveUnlisted(a *An, tf *tableFacts, rm *ssa.Function) {
	ro := a.Ro
	w := a.walk(rm)
	// the ok-tested lookup of the path table keyed by the cleaned argument
	var okAtom *Atom
	for _, v := range w.Visits {
		lk, isLk := v.Instr.(*ssa.Lookup)
		if !isLk || !lk.CommaOk || v.Ctx.fieldOfValue(lk.X) != tf.pathTable {
			continue
		}
		okAtom = &Atom{Kind: AkOk, Subj: v.Ctx.path(lk), V: lk, Ctx: v.Ctx}
		break
	}
	if okAtom == nil {
		a.R.ob("C04.2", "remove:lookup", "Remove looks the path up in the path table with a comma-ok test", a.P.pos(rm.Pos()), false, "no comma-ok lookup of the path table on the Remove flow")
		return
	}
	// every delete is under ok
	ops := collectTableOps(a, tf, w)
	all := true
	var bad []string
	for _, op := range ops {
		if op.Kind != "delete" {
			continue
		}
		ok, _ := op.V.Cond.everyConj(func(c Conj) bool {
			return c.has(func(l Lit) bool { return l.A.Kind == AkOk && !l.Neg && l.A.Subj == okAtom.Subj })
		})
		if !ok {
			all = false
			bad = append(bad, a.P.instrPos(op.V.Instr))
		}
	}
	a.R.ob("C04.2", "remove:deletes-after-lookup", "Remove deletes entries only after the path was found in the path table", a.P.pos(rm.Pos()), all, sprintf("deletes not under the ok test: %s", fmtList(bad)))
	// the !ok return wraps ErrNonExistentWatch, and the API returns it
	found := false
	var seen []string
	for _, v := range w.Visits {
		r, isRet := v.Instr.(*ssa.Return)
		if !isRet || len(r.Results) == 0 {
			continue
		}
		notOk, _ := v.Cond.everyConj(func(c Conj) bool {
			return c.has(func(l Lit) bool { return l.A.Kind == AkOk && l.Neg && l.A.Subj == okAtom.Subj })
		})
		if !notOk || v.Cond.isFalse() {
			continue
		}
		org := origins(v.Ctx, r.Results[len(r.Results)-1], 0)
		seen = append(seen, strings.Join(org, "|"))
		for _, o := range org {
			if o == "wraps:"+ro.ErrNonExist.Name() || o == ro.ErrNonExist.Name() {
				found = true
			}
		}
	}
	a.R.ob("C04.2", "remove:unlisted-error", "when the path is not listed Remove returns an error that wraps ErrNonExistentWatch", a.P.pos(rm.Pos()), found, sprintf("results on the not-found path: %s", fmtList(uniq(seen))))
	// API-level result origins include it
	api := false
	for _, v := range w.Visits {
		if r, isRet := v.Instr.(*ssa.Return); isRet && v.Ctx.Parent == nil && len(r.Results) == 1 {
			for _, o := range origins(v.Ctx, r.Results[0], 0) {
				if strings.HasSuffix(o, ro.ErrNonExist.Name()) {
					api = true
				}
			}
		}
	}
	a.R.ob("C04.2", "remove:propagates", "Remove propagates that error to its caller", a.P.pos(rm.Pos()), api, "")
}

func c04Alias(a *An, tf *tableFacts, addWith *ssa.Function) {
	w := a.walk(addWith)
	adds := syscallVisits(a, w, "InotifyAddWatch")
	if len(adds) != 1 {
		return
	}
	_, pathF := tf.watchFields()
	wdPath := adds[0].Ctx.path(adds[0].Instr.(*ssa.Call)) + "#0"
	// a return of the wd-table entry found under the new wd
	found := false
	for _, v := range w.Visits {
		r, ok := v.Instr.(*ssa.Return)
		if !ok || len(r.Results) == 0 || v.Ctx != adds[0].Ctx {
			continue
		}
		rv, rc := v.Ctx.resolve(r.Results[0])
		var lk *ssa.Lookup
		if ex, ok := rv.(*ssa.Extract); ok {
			lk, _ = ex.Tuple.(*ssa.Lookup)
		} else if l, ok := rv.(*ssa.Lookup); ok {
			lk = l
		}
		if lk == nil || rc.fieldOfValue(lk.X) != tf.wdTable {
			continue
		}
		if rc.path(lk.Index) != wdPath {
			continue
		}
		lp := rc.path(lk)
		tested, _ := v.Cond.everyConj(func(c Conj) bool {
			return c.has(func(l Lit) bool { return (l.A.Kind == AkOk && !l.Neg || l.A.Kind == AkNil && l.Neg) && l.A.Subj == lp })
		})
		if tested {
			found = true
		}
	}
	a.R.ob("C04.4", "alias:existing-entry-wins", "when the kernel returns a wd that is already in the wd table the registration returns that existing entry (adding an alias changes nothing)",
		a.P.instrPos(adds[0].Instr), found, "return of wdTable[new wd] under its ok/nil test")
	// ... and it does so whenever that wd is known: success ∧ ok(wdTable[wd]) => that return
	kctx := adds[0].Ctx
	var entry DNF
	for _, v := range w.Visits {
		if v.Ctx == kctx {
			entry = v.Cond
			break
		}
	}
	var okLit *Lit
	var retCond DNF
	for _, v := range w.Visits {
		if v.Ctx != kctx {
			continue
		}
		if lk, isLk := v.Instr.(*ssa.Lookup); isLk && v.Ctx.fieldOfValue(lk.X) == tf.wdTable && v.Ctx.path(lk.Index) == wdPath {
			okLit = &Lit{A: &Atom{Kind: AkOk, Subj: v.Ctx.path(lk), V: lk, Ctx: v.Ctx}}
		}
		if r, isRet := v.Instr.(*ssa.Return); isRet && len(r.Results) > 0 {
			rv, rc := v.Ctx.resolve(r.Results[0])
			var lk *ssa.Lookup
			if ex, isEx := rv.(*ssa.Extract); isEx {
				lk, _ = ex.Tuple.(*ssa.Lookup)
			} else if l, isL := rv.(*ssa.Lookup); isL {
				lk = l
			}
			if lk != nil && rc.fieldOfValue(lk.X) == tf.wdTable && rc.path(lk.Index) == wdPath {
				retCond = retCond.or(v.Cond)
			}
		}
	}
	always := false
	wit := "no comma-ok lookup of the wd table under the new descriptor"
	if okLit != nil {
		T := entry.andLit(*okLit)
		for _, l := range successLits(adds[0]) {
			T = T.andLit(l)
		}
		h, ctr, err := implies(T, retCond)
		if err != nil {
			a.R.fail("%v", err)
		}
		always = h
		wit = "success ∧ ok(wdTable[wd]) => return of that entry"
		if !h {
			wit = "a known descriptor does not lead to the existing entry when " + stripIDs(ctr)
		}
	}
	a.R.ob("C04.4", "alias:always", "a descriptor that is already in the wd table always resolves to its existing entry, whatever flags or spelling the new Add used", a.P.instrPos(adds[0].Instr), always, wit)
	// no store to the path field of a non-fresh watch on the Add flow
	var bad []string
	for _, v := range w.Visits {
		st, ok := v.Instr.(*ssa.Store)
		if !ok {
			continue
		}
		fa, ok := st.Addr.(*ssa.FieldAddr)
		if !ok || fieldName(fa.X.Type(), fa.Field) != pathF || a.Ro.StructOf[fieldOf(fa)] != tf.watchT {
			continue
		}
		base, _ := v.Ctx.resolve(fa.X)
		if _, fresh := base.(*ssa.Alloc); !fresh {
			bad = append(bad, a.P.instrPos(st))
		}
	}
	a.R.ob("C04.4", "alias:path-not-rewritten", "the Add flow never rewrites the path of an existing entry (the first spelling wins)", a.P.pos(addWith.Pos()), len(bad) == 0, sprintf("stores: %s", fmtList(bad)))
}

func c04Normaliser(a *An, tf *tableFacts, roots []*ssa.Function) {
	_, pathF := tf.watchFields()
	for _, root := range roots {
		w := a.walk(root)
		keys := map[string]string{}
		for _, v := range w.Visits {
			var key ssa.Value
			switch x := v.Instr.(type) {
			case *ssa.Lookup:
				if v.Ctx.fieldOfValue(x.X) == tf.pathTable {
					key = x.Index
				}
			case *ssa.MapUpdate:
				if v.Ctx.fieldOfValue(x.Map) == tf.pathTable {
					key = x.Key
				}
			case *ssa.Call:
				if args, ok := isBuiltinCall(x, "delete"); ok && v.Ctx.fieldOfValue(args[0]) == tf.pathTable {
					key = args[1]
				}
			}
			if key == nil {
				continue
			}
			keys[stripIDs(v.Ctx.path(key))] = a.P.instrPos(v.Instr)
		}
		for k, pos := range keys {
			ok := false
			why := ""
			param := ""
			if len(root.Params) > 1 {
				param = "p:" + root.Params[1].Name()
			}
			switch {
			case strings.Contains(k, "path/filepath.Clean(") && strings.Contains(k, param):
				ok, why = true, "filepath.Clean of the API argument"
			case strings.HasSuffix(k, "."+pathF):
				ok, why = true, "path stored in an existing entry (normalised when it was added)"
			case strings.HasSuffix(k, "#k") && strings.Contains(k, "range("):
				ok, why = true, "existing key of the table"
			case strings.HasPrefix(k, "p:") && strings.Contains(k, "$"):
				// parameter of a callback invoked by the standard library (WalkDir): recursion only
				ok, why = true, "path produced by filepath.WalkDir from a cleaned root (recursive mode only)"
			default:
				why = "key is " + tail(k, 120)
			}
			a.R.ob("C04.5", sprintf("%s:path-key(%s)", root.Name(), tail(stripCallArgs(k), 60)), "path-table keys on the Add and Remove flows are the cleaned API argument, so Add and Remove agree on the spelling",
				pos, ok, why)
		}
	}
}

// c04RemoveExact: deletes on the Remove flow concern the named path unless under the recursive flag.
func c04RemoveExact(a *An, tf *tableFacts, rm *ssa.Function, rule string) {
	w := a.walk(rm)
	ops := collectTableOps(a, tf, w)
	param := ""
	if len(rm.Params) > 1 {
		param = "p:" + rm.Params[1].Name()
	}
	for _, op := range ops {
		if op.Kind != "delete" {
			continue
		}
		named := strings.Contains(op.Key, param) && !strings.Contains(op.Key, "range(")
		underRec, _ := op.V.Cond.everyConj(func(c Conj) bool {
			return c.has(func(l Lit) bool { return l.A.Kind == AkBool && !l.Neg && strings.HasSuffix(l.A.Subj, ".recurse") })
		})
		wit := "keyed by the named path"
		if !named {
			wit = "other entries are deleted only under the watch's recursive flag"
		}
		if !named && !underRec {
			wit = "deletes an entry other than the named path without the recursive flag, under " + stripIDs(op.V.Cond.String())
		}
		a.R.ob(rule, sprintf("remove:delete(%s[%s])", op.Table.Name(), tail(stripCallArgs(op.Key), 60)), "Remove ends exactly the named watch; other entries go only with a recursive watch",
			a.P.instrPos(op.V.Instr), named || underRec, wit)
	}
}

func c04WatchList(a *An, tf *tableFacts) {
	wl := a.Ro.API["WatchList"]
	if wl == nil {
		return
	}
	w := a.walk(wl)
	// the result is built by appending the range keys of the path table
	var appends []string
	ok := true
	n := 0
	for _, v := range w.Visits {
		call, isCall := v.Instr.(*ssa.Call)
		if !isCall {
			continue
		}
		args, isApp := isBuiltinCall(call, "append")
		if !isApp || len(args) != 2 {
			continue
		}
		n++
		// appended element(s): the variadic slice's stored element
		sl, _ := args[1].(*ssa.Slice)
		elem := ""
		if sl != nil {
			if al, okA := sl.X.(*ssa.Alloc); okA {
				if refs := al.Referrers(); refs != nil {
					for _, r := range *refs {
						if ia, okI := r.(*ssa.IndexAddr); okI {
							if rr := ia.Referrers(); rr != nil {
								for _, u := range *rr {
									if st, okS := u.(*ssa.Store); okS && st.Addr == ssa.Value(ia) {
										elem = stripIDs(v.Ctx.path(st.Val))
									}
								}
							}
						}
					}
				}
			}
		}
		appends = append(appends, elem)
		if !(strings.HasSuffix(elem, "#k") && strings.Contains(elem, "range(recv.") && strings.Contains(elem, "."+tf.pathTable.Name()+")")) {
			ok = false
		}
		if !v.Cond.isTrue() {
			// only the closed guard and loop condition may appear
			for _, c := range v.Cond {
				for _, l := range c {
					if l.A.Kind == AkPred && l.A.Callee != nil && a.Ro.isIsClosed(l.A.Callee) {
						continue
					}
					if l.A.Kind == AkOpaque && strings.Contains(l.A.Subj, "next(range(") {
						continue
					}
					ok = false
					appends = append(appends, "filtered by "+stripIDs(l.String()))
				}
			}
		}
	}
	a.R.ob("C04.6", "watchlist:keys-of-path-table", "WatchList returns exactly the keys of the path table (one per watched file, no filter)", a.P.pos(wl.Pos()), ok && n == 1, sprintf("appended: %s", fmtList(appends)))
	_ = types.Typ
}

package main

import (
	"go/types"
	"strings"

	"golang.org/x/tools/go/ssa"
)

func init() {
	register(&property{
		Meta: propMeta{
			ID:    "C04",
			Title: "Watch-set semantics: Add, Remove and WatchList obey the sequential spec",
			Explanation: "Rules over every table mutation of the inotify backend in every calling context (API Add/Remove and the reader). Decided: " +
				"(1) a failed Add changes nothing: every table update/delete and every store to a field of an existing watch in the Add flow is dominated by success of inotify_add_watch; " +
				"(2) Remove of an unlisted path returns an error wrapping ErrNonExistentWatch before any delete; " +
				"(3) the two tables stay mutually inverse: every delete/update on one table is matched, under an equivalent reaching condition, by the corresponding operation on the other table for the same entry (so no dangling entry, hence no nil dereference in Remove); " +
				"(4) an alias (same kernel wd) returns the existing entry and the Add flow never rewrites the path of an existing entry (first name wins); " +
				"(5) every path-table key on the Add and Remove flows is filepath.Clean of the API argument (or the path stored in an existing entry); " +
				"(6) Remove deletes only the named entry unless the watch is recursive; WatchList returns exactly the path table's keys; " +
				"(7) re-adding a listed path whose descriptor changed releases the old entry (both tables and inotify_rm_watch) on every path, and a descriptor already in the wd table always resolves to its existing entry. " +
				"Not decided: symlink/hard-link resolution (kernel wd identity); sequences as such.",
			Rule:        "one obligation per table mutation and calling root, per Add-flow effect, per Remove delete, per path-table key; non-trivial = the mutation is reachable",
			Assumptions: []string{"go/types + go/ssa", "callbacks run synchronously in their caller", "production folding (E-F)"},
			MinObl:      30,
		},
		Configs: tiered(linuxQuick, linuxAll),
		Run:     runC04,
	})
}

func runC04(p *Program, e *Engine, r *Result, tier string) {
	a := newAn(p, e, r, true)
	if a == nil {
		return
	}
	tf := findTables(a)
	if tf == nil {
		return
	}
	ro := a.Ro
	addWith, rm := ro.API["AddWith"], ro.API["Remove"]
	if !a.require(addWith != nil && rm != nil, "AddWith/Remove") {
		return
	}
	c04FailedAdd(a, tf, addWith)
	c04RemoveUnlisted(a, tf, rm)
	for _, root := range []*ssa.Function{addWith, rm} {
		pairTables(a, tf, root, "C04.3")
	}
	for _, rd := range ro.Readers {
		pairTables(a, tf, rd, "C04.3")
		c12PathStores(a, tf, rd, "C04.3")
	}
	c04Alias(a, tf, addWith)
	c04Replace(a, tf, addWith, "C04.7")
	c04Normaliser(a, tf, []*ssa.Function{addWith, rm})
	c04RemoveExact(a, tf, rm, "C04.6")
	c04AddAsksKernel(a, "C04.8")
	c04WatchList(a, tf)
	c07Deref(a, "C04.3n")
	// (9) "a file is watched ... until its watched path is deleted or renamed": kernel-says-gone records remove both
	// entries, and a record with IN_MOVE_SELF for a known non-recursive watch ends the watch through the removal
	// function Remove uses - unconditionally (not only when the name is free again). Shared with C09.1 / C09.2.
	if df := decodeFacts(a); df != nil {
		if w, hv0, hctx, entry, watchLit, maskSubj := handlerFrame(a, df, tf); hctx != nil {
			c09Cleanup(a, tf, hctx, entry, *watchLit, watchLit.A.Subj, maskSubj, collectTableOps(a, tf, w), "C04.9")
			c09MoveSelf(a, df, tf, hv0, hctx, entry, *watchLit, watchLit.A.Subj, maskSubj, "C04.9")
		}
	}
}

// addWatchCalls: visits of unix.InotifyAddWatch under root.
func syscallVisits(a *An, w *Walker, name string) []*Visit {
	var out []*Visit
	for _, v := range w.Visits {
		if call, ok := v.Instr.(*ssa.Call); ok {
			if cal := v.Ctx.calleeOf(&call.Call); cal != nil && cal.Name() == name {
				if pk := fnPkg(cal); pk != nil && strings.HasPrefix(pk.Pkg.Path(), "golang.org/x/sys/") {
					out = append(out, v)
				}
			}
		}
	}
	return out
}

// successLits: literals stating that the syscall visited at call succeeded, in the form the code tests (wd != -1).
func successLits(call *Visit) []Lit {
	cp := call.Ctx.path(call.Instr.(*ssa.Call))
	return []Lit{{A: &Atom{Kind: AkCmp, Subj: cp + "#0", Op: "==", K: "c:-1"}, Neg: true}}
}

// c04Replace: on the Add flow, a listed path whose descriptor changed has its old entry released (tables and kernel).
func c04Replace(a *An, tf *tableFacts, addWith *ssa.Function, rule string) {
	af := addFlow(a, tf, addWith)
	if af == nil {
		return
	}
	w := af.w
	wdF, pathF := tf.watchFields()
	if af.ep == "" {
		a.R.ob(rule, "replace:listed-entry", "the Add flow looks up the entry currently listed under the path", a.P.pos(addWith.Pos()), false, "no lookup wdTable[pathTable[path]] on the Add flow")
		return
	}
	ep := af.ep
	T := af.add.Cond.andLit(Lit{A: &Atom{Kind: AkNil, Subj: ep}, Neg: true})
	for _, l := range successLits(af.add) {
		T = T.andLit(l)
	}
	eqA, eqB := eqOrder(ep+"."+wdF, af.wdPath)
	T = T.andLit(Lit{A: &Atom{Kind: AkCmp, Subj: eqA, Op: "==", K: eqB}, Neg: true})
	ops := collectTableOps(a, tf, w)
	var delWd, delPath, rm DNF
	for _, op := range ops {
		if op.Kind != "delete" {
			continue
		}
		if op.Table == tf.wdTable && op.Key == stripIDs(ep)+"."+wdF {
			delWd = delWd.or(op.V.Cond)
		}
		if op.Table == tf.pathTable && op.Key == stripIDs(ep)+"."+pathF {
			delPath = delPath.or(op.V.Cond)
		}
	}
	for _, v := range syscallVisits(a, w, "InotifyRmWatch") {
		call := v.Instr.(*ssa.Call)
		if stripIDs(v.Ctx.path(call.Call.Args[1])) == stripIDs(ep)+"."+wdF {
			rm = rm.or(v.Cond)
		}
	}
	for _, e := range []struct {
		name string
		d    DNF
	}{{"wd-table entry deleted", delWd}, {"path-table entry deleted", delPath}, {"inotify_rm_watch on the old descriptor", rm}} {
		ok, wit := false, "no such effect on the Add flow"
		if !e.d.isFalse() {
			h, ctr, err := implies(T, e.d)
			if err != nil {
				a.R.fail("%v", err)
			}
			ok = h
			wit = "listed ∧ success ∧ descriptor changed => " + e.name
			if !h {
				wit = "the old watch is kept when " + stripIDs(ctr)
			}
		}
		a.R.ob(rule, "replace:"+strings.Fields(e.name)[0], "re-adding a listed path that now names another file releases the old watch on every path: "+e.name, a.P.instrPos(af.add.Instr), ok, wit)
	}
}

// successLit: the condition "this syscall succeeded" appears in conjunct c.
func successOf(call *Visit) func(Lit) bool {
	cp := call.Ctx.path(call.Instr.(*ssa.Call))
	return func(l Lit) bool {
		// wd != -1   or  err == nil
		if l.A.Kind == AkCmp && l.Neg && l.A.Op == "==" && l.A.Subj == cp+"#0" && l.A.K == "c:-1" {
			return true
		}
		if l.A.Kind == AkNil && !l.Neg && l.A.Subj == cp+"#1" {
			return true
		}
		return false
	}
}

func c04FailedAdd(a *An, tf *tableFacts, addWith *ssa.Function) {
	w := a.walk(addWith)
	adds := syscallVisits(a, w, "InotifyAddWatch")
	if len(adds) != 1 {
		a.R.fail("anchor unresolved: exactly one inotify_add_watch call on the Add flow (found %d)", len(adds))
		return
	}
	direct := successOf(adds[0])
	// success may also be known through the result of the registration callback: a literal "callback's error is nil" /
	// "callback's entry is non-nil" implies success when every return of the callback compatible with it is itself
	// dominated by success.
	succ := func(l Lit) bool {
		if direct(l) {
			return true
		}
		return resultImplies(l, direct)
	}
	ops := collectTableOps(a, tf, w)
	n := 0
	for _, op := range ops {
		n++
		ok, bad := op.V.Cond.everyConj(func(c Conj) bool { return c.has(succ) })
		wit := "dominated by success of inotify_add_watch"
		if !ok {
			wit = "reachable without a successful inotify_add_watch under " + stripIDs(bad.String())
		}
		a.R.ob("C04.1", sprintf("add-flow:%s(%s[%s])", op.Kind, op.Table.Name(), tail(stripCallArgs(op.Key), 60)), "on the Add flow a table is modified only after inotify_add_watch succeeded (a failed Add leaves the set untouched)",
			a.P.instrPos(op.V.Instr), ok, wit)
	}
	// stores to fields of existing (non-fresh) watches
	for _, v := range w.Visits {
		st, ok := v.Instr.(*ssa.Store)
		if !ok {
			continue
		}
		fa, ok := st.Addr.(*ssa.FieldAddr)
		if !ok {
			continue
		}
		f := fieldOf(fa)
		if a.Ro.StructOf[f] != tf.watchT {
			continue
		}
		base, _ := v.Ctx.resolve(fa.X)
		if _, fresh := base.(*ssa.Alloc); fresh {
			continue
		}
		n++
		ok2, bad := v.Cond.everyConj(func(c Conj) bool { return c.has(succ) })
		wit := "dominated by success of inotify_add_watch"
		if !ok2 {
			wit = "reachable without a successful inotify_add_watch under " + stripIDs(bad.String())
		}
		a.R.ob("C04.1", "add-flow:store(watch."+f.Name()+")", "on the Add flow an existing watch is modified only after inotify_add_watch succeeded", a.P.instrPos(st), ok2, wit)
	}
	if n == 0 {
		a.R.fail("no table mutation on the Add flow (vacuous)")
	}
}

// resultImplies: literal l is nil(call#i) / !nil(call#i) on the result of an inlinable call, and every return of the
// callee that is compatible with l carries `need` in every conjunct of its (callee-local) reaching condition.
func resultImplies(l Lit, need func(Lit) bool) bool {
	if l.A.Kind != AkNil || l.A.V == nil || l.A.Ctx == nil {
		return false
	}
	switch l.A.V.(type) {
	case *ssa.Extract, *ssa.Call:
	default:
		return false
	}
	edges := valueEdges(l.A.Ctx, l.A.V, dnfTrue())
	if len(edges) == 1 && edges[0].V == l.A.V {
		return false // not expandable
	}
	n := 0
	for _, e := range edges {
		knownNil := isNilConst(e.V)
		knownNonNil := false
		switch e.V.(type) {
		case *ssa.Alloc, *ssa.MakeInterface, *ssa.MakeClosure, *ssa.MakeMap, *ssa.MakeSlice:
			knownNonNil = true
		}
		if l.Neg && knownNil { // l says non-nil: this source is excluded
			continue
		}
		if !l.Neg && knownNonNil {
			continue
		}
		n++
		ok, _ := e.Cond.everyConj(func(c Conj) bool { return c.has(need) })
		if !ok {
			return false
		}
	}
	return n > 0
}

func c04RemoveUnlisted(a *An, tf *tableFacts, rm *ssa.Function) {
	ro := a.Ro
	w := a.walk(rm)
	// the ok-tested lookup of the path table keyed by the cleaned argument
	var okAtom *Atom
	for _, v := range w.Visits {
		lk, isLk := v.Instr.(*ssa.Lookup)
		if !isLk || !lk.CommaOk || v.Ctx.fieldOfValue(lk.X) != tf.pathTable {
			continue
		}
		okAtom = &Atom{Kind: AkOk, Subj: v.Ctx.path(lk), V: lk, Ctx: v.Ctx}
		break
	}
	if okAtom == nil {
		a.R.ob("C04.2", "remove:lookup", "Remove looks the path up in the path table with a comma-ok test", a.P.pos(rm.Pos()), false, "no comma-ok lookup of the path table on the Remove flow")
		return
	}
	// every delete is under ok
	ops := collectTableOps(a, tf, w)
	all := true
	var bad []string
	for _, op := range ops {
		if op.Kind != "delete" {
			continue
		}
		ok, _ := op.V.Cond.everyConj(func(c Conj) bool {
			return c.has(func(l Lit) bool { return l.A.Kind == AkOk && !l.Neg && l.A.Subj == okAtom.Subj })
		})
		if !ok {
			all = false
			bad = append(bad, a.P.instrPos(op.V.Instr))
		}
	}
	a.R.ob("C04.2", "remove:deletes-after-lookup", "Remove deletes entries only after the path was found in the path table", a.P.pos(rm.Pos()), all, sprintf("deletes not under the ok test: %s", fmtList(bad)))
	// the !ok return wraps ErrNonExistentWatch, and the API returns it
	found := false
	var seen []string
	for _, v := range w.Visits {
		r, isRet := v.Instr.(*ssa.Return)
		if !isRet || len(r.Results) == 0 {
			continue
		}
		notOk, _ := v.Cond.everyConj(func(c Conj) bool {
			return c.has(func(l Lit) bool { return l.A.Kind == AkOk && l.Neg && l.A.Subj == okAtom.Subj })
		})
		if !notOk || v.Cond.isFalse() {
			continue
		}
		org := origins(v.Ctx, r.Results[len(r.Results)-1], 0)
		seen = append(seen, strings.Join(org, "|"))
		for _, o := range org {
			if o == "wraps:"+ro.ErrNonExist.Name() || o == ro.ErrNonExist.Name() {
				found = true
			}
		}
	}
	a.R.ob("C04.2", "remove:unlisted-error", "when the path is not listed Remove returns an error that wraps ErrNonExistentWatch", a.P.pos(rm.Pos()), found, sprintf("results on the not-found path: %s", fmtList(uniq(seen))))
	// API-level result origins include it
	api := false
	for _, v := range w.Visits {
		if r, isRet := v.Instr.(*ssa.Return); isRet && v.Ctx.Parent == nil && len(r.Results) == 1 {
			for _, o := range origins(v.Ctx, r.Results[0], 0) {
				if strings.HasSuffix(o, ro.ErrNonExist.Name()) {
					api = true
				}
			}
		}
	}
	a.R.ob("C04.2", "remove:propagates", "Remove propagates that error to its caller", a.P.pos(rm.Pos()), api, "")
}

// addFlowFacts: the syscall, the descriptor it returns, and the entry currently listed under the path.
type addFlowFacts struct {
	w      *Walker
	add    *Visit
	wdPath string
	ep     string // path (as used in atoms) of the listed entry ("existing"), "" if the flow has none
	stores []storedEdge
	succ   func(Lit) bool
}

type storedEdge struct {
	e    ValEdge
	site *Visit
	kind string // "alias", "fresh", "repointed", "nil", "other"
}

func addFlow(a *An, tf *tableFacts, addWith *ssa.Function) *addFlowFacts {
	w := a.walk(addWith)
	adds := syscallVisits(a, w, "InotifyAddWatch")
	if len(adds) != 1 {
		a.R.fail("anchor unresolved: exactly one inotify_add_watch on the Add flow (found %d)", len(adds))
		return nil
	}
	af := &addFlowFacts{w: w, add: adds[0]}
	af.wdPath = af.add.Ctx.path(af.add.Instr.(*ssa.Call)) + "#0"
	direct := successOf(af.add)
	af.succ = func(l Lit) bool { return direct(l) || resultImplies(l, direct) }
	wdF, _ := tf.watchFields()
	// the listed entry: a lookup in the wd table keyed by a lookup in the path table; atoms speak about the phi that
	// merges it with nil (or about the lookup itself)
	for _, v := range w.Visits {
		lk, ok := v.Instr.(*ssa.Lookup)
		if !ok || v.Ctx.fieldOfValue(lk.X) != tf.wdTable {
			continue
		}
		kv, kc := v.Ctx.resolve(lk.Index)
		var inner *ssa.Lookup
		switch x := kv.(type) {
		case *ssa.Lookup:
			inner = x
		case *ssa.Extract:
			inner, _ = x.Tuple.(*ssa.Lookup)
		}
		if inner == nil || kc.fieldOfValue(inner.X) != tf.pathTable {
			continue
		}
		var val ssa.Value = lk
		if refs := lk.Referrers(); refs != nil {
			for _, r := range *refs {
				if ex, ok := r.(*ssa.Extract); ok && ex.Index == 0 {
					val = ex
				}
			}
		}
		af.ep = v.Ctx.path(val)
		if refs := val.Referrers(); refs != nil {
			for _, r := range *refs {
				if ph, ok := r.(*ssa.Phi); ok {
					af.ep = v.Ctx.path(ph)
				}
			}
		}
		break
	}
	// what is stored into the wd table on this flow
	for _, v := range w.Visits {
		mu, ok := v.Instr.(*ssa.MapUpdate)
		if !ok || v.Ctx.fieldOfValue(mu.Map) != tf.wdTable {
			continue
		}
		for _, e := range valueEdges(v.Ctx, mu.Value, v.Cond) {
			se := storedEdge{e: e, site: v, kind: "other"}
			switch x := e.V.(type) {
			case *ssa.Const:
				if isNilConst(x) {
					se.kind = "nil"
				}
			case *ssa.Lookup:
				if e.Ctx.fieldOfValue(x.X) == tf.wdTable && e.Ctx.path(x.Index) == af.wdPath {
					se.kind = "alias"
				}
			case *ssa.Extract:
				if lk, isLk := x.Tuple.(*ssa.Lookup); isLk && e.Ctx.fieldOfValue(lk.X) == tf.wdTable && e.Ctx.path(lk.Index) == af.wdPath {
					se.kind = "alias"
				}
			case *ssa.Alloc:
				if refs := x.Referrers(); refs != nil {
					for _, rr := range *refs {
						if fa, isFA := rr.(*ssa.FieldAddr); isFA && fieldName(fa.X.Type(), fa.Field) == wdF {
							if fr := fa.Referrers(); fr != nil {
								for _, u := range *fr {
									if st, isSt := u.(*ssa.Store); isSt && st.Addr == ssa.Value(fa) && e.Ctx.path(st.Val) == af.wdPath {
										se.kind = "fresh"
									}
								}
							}
						}
					}
				}
			}
			if se.kind == "other" {
				// an existing entry re-pointed: some store E.wd = descriptor on the same value
				for _, u := range w.Visits {
					st, isSt := u.Instr.(*ssa.Store)
					if !isSt {
						continue
					}
					if fa, isFA := st.Addr.(*ssa.FieldAddr); isFA && fieldName(fa.X.Type(), fa.Field) == wdF && a.Ro.StructOf[fieldOf(fa)] == tf.watchT {
						if u.Ctx.path(st.Val) != af.wdPath {
							continue
						}
						for _, be := range valueEdges(u.Ctx, fa.X, dnfTrue()) {
							if be.V == e.V {
								se.kind = "repointed"
							}
						}
					}
				}
			}
			af.stores = append(af.stores, se)
		}
	}
	return af
}

func c04Alias(a *An, tf *tableFacts, addWith *ssa.Function) {
	af := addFlow(a, tf, addWith)
	if af == nil {
		return
	}
	w := af.w
	_, pathF := tf.watchFields()
	// the entry found under the new descriptor is what gets (re)stored
	var aliasCond DNF
	for _, se := range af.stores {
		if se.kind == "alias" {
			aliasCond = aliasCond.or(se.e.Cond)
		}
	}
	a.R.ob("C04.4", "alias:existing-entry-wins", "when the kernel returns a wd that is already in the wd table the registration keeps that existing entry (adding an alias changes nothing)",
		a.P.instrPos(af.add.Instr), !aliasCond.isFalse(), "the entry looked up under the new descriptor is the value stored for it")
	// ... and it does so whenever that wd is known: reached the syscall ∧ success ∧ ok(wdTable[wd]) => that entry is the one kept
	var okLit *Lit
	for _, v := range w.Visits {
		if lk, isLk := v.Instr.(*ssa.Lookup); isLk && v.Ctx.fieldOfValue(lk.X) == tf.wdTable && v.Ctx.path(lk.Index) == af.wdPath {
			if lk.CommaOk {
				okLit = &Lit{A: &Atom{Kind: AkOk, Subj: v.Ctx.path(lk), V: lk, Ctx: v.Ctx}}
			} else {
				okLit = &Lit{A: &Atom{Kind: AkNil, Subj: v.Ctx.path(lk), V: lk, Ctx: v.Ctx}, Neg: true}
			}
		}
	}
	always := false
	wit := "no lookup of the wd table under the new descriptor"
	if okLit != nil && !aliasCond.isFalse() {
		T := af.add.Cond.andLit(*okLit)
		if okLit.A.Kind == AkOk {
			// the tables never hold nil entries (every stored value is a fresh or existing entry: C12.1)
			T = T.andLit(Lit{A: &Atom{Kind: AkNil, Subj: okLit.A.Subj}, Neg: true})
		}
		for _, l := range successLits(af.add) {
			T = T.andLit(l)
		}
		h, ctr, err := implies(T, aliasCond)
		if err != nil {
			a.R.fail("%v", err)
		}
		always = h
		wit = "success ∧ known descriptor => the existing entry is kept"
		if !h {
			wit = "a known descriptor does not lead to the existing entry when " + stripIDs(ctr)
		}
	}
	a.R.ob("C04.4", "alias:always", "a descriptor that is already in the wd table always resolves to its existing entry, whatever flags or spelling the new Add used", a.P.instrPos(af.add.Instr), always, wit)
	// no store to the path field of a non-fresh watch on the Add flow
	var bad []string
	for _, v := range w.Visits {
		st, ok := v.Instr.(*ssa.Store)
		if !ok {
			continue
		}
		fa, ok := st.Addr.(*ssa.FieldAddr)
		if !ok || fieldName(fa.X.Type(), fa.Field) != pathF || a.Ro.StructOf[fieldOf(fa)] != tf.watchT {
			continue
		}
		base, _ := v.Ctx.resolve(fa.X)
		if _, fresh := base.(*ssa.Alloc); !fresh {
			bad = append(bad, a.P.instrPos(st))
		}
	}
	a.R.ob("C04.4", "alias:path-not-rewritten", "the Add flow never rewrites the path of an existing entry (the first spelling wins)", a.P.pos(addWith.Pos()), len(bad) == 0, sprintf("stores: %s", fmtList(bad)))
}

func c04Normaliser(a *An, tf *tableFacts, roots []*ssa.Function) {
	_, pathF := tf.watchFields()
	for _, root := range roots {
		w := a.walk(root)
		keys := map[string]string{}
		for _, v := range w.Visits {
			var key ssa.Value
			switch x := v.Instr.(type) {
			case *ssa.Lookup:
				if v.Ctx.fieldOfValue(x.X) == tf.pathTable {
					key = x.Index
				}
			case *ssa.MapUpdate:
				if v.Ctx.fieldOfValue(x.Map) == tf.pathTable {
					key = x.Key
				}
			case *ssa.Call:
				if args, ok := isBuiltinCall(x, "delete"); ok && v.Ctx.fieldOfValue(args[0]) == tf.pathTable {
					key = args[1]
				}
			}
			if key == nil {
				continue
			}
			keys[stripIDs(v.Ctx.path(key))] = a.P.instrPos(v.Instr)
		}
		// a key that is an element of a local slice stands for what was put into that slice
		keys = expandElementStrings(w, keys)
		for k, pos := range keys {
			ok := false
			why := ""
			param := ""
			if len(root.Params) > 1 {
				param = "p:" + root.Params[1].Name()
			}
			switch {
			case strings.Contains(k, "path/filepath.Clean(") && strings.Contains(k, param):
				ok, why = true, "filepath.Clean of the API argument"
			case strings.HasSuffix(k, "."+pathF):
				ok, why = true, "path stored in an existing entry (normalised when it was added)"
			case strings.HasSuffix(k, "#k") && strings.Contains(k, "range("):
				ok, why = true, "existing key of the table"
			case strings.HasPrefix(k, "p:") && strings.Contains(k, "$"):
				// parameter of a callback invoked by the standard library (WalkDir): recursion only
				ok, why = true, "path produced by filepath.WalkDir from a cleaned root (recursive mode only)"
			default:
				why = "key is " + tail(k, 120)
			}
			a.R.ob("C04.5", sprintf("%s:path-key(%s)", root.Name(), tail(stripCallArgs(k), 60)), "path-table keys on the Add and Remove flows are the cleaned API argument, so Add and Remove agree on the spelling",
				pos, ok, why)
		}
	}
}

// c04AddAsksKernel: every return of AddWith that can yield a nil error has passed a call of inotify_add_watch.
func c04AddAsksKernel(a *An, rule string) {
	aw := a.Ro.API["AddWith"]
	if aw == nil {
		a.R.fail("anchor unresolved: AddWith")
		return
	}
	w := a.walk(aw)
	asked := dnfFalse()
	n := 0
	for _, v := range syscallVisits(a, w, "InotifyAddWatch") {
		asked = asked.or(v.Cond)
		n++
	}
	if n == 0 {
		a.R.ob(rule, "add:asks-kernel", "a successful Add has called inotify_add_watch", a.P.pos(aw.Pos()), false, "no inotify_add_watch reachable from AddWith")
		return
	}
	nRet := 0
	var bad []string
	for _, v := range w.Visits {
		r, ok := v.Instr.(*ssa.Return)
		if !ok || v.Ctx.Parent != nil || len(r.Results) != 1 {
			continue
		}
		for _, e := range valueEdges(v.Ctx, r.Results[0], v.Cond) {
			if !isNilConst(e.V) {
				if k, isK := e.V.(*ssa.Const); !isK || k.Value != nil {
					continue // an error value: not a successful Add
				}
			}
			nRet++
			h, ctr, err := implies(e.Cond, asked)
			if err != nil {
				a.R.fail("%s: %v", rule, err)
				continue
			}
			if !h {
				bad = append(bad, "nil is returned without asking the kernel when "+stripIDs(ctr))
			}
		}
	}
	a.R.ob(rule, "add:asks-kernel", "every successful Add has called inotify_add_watch for the path (the table is never trusted to say 'already watched')", a.P.pos(aw.Pos()),
		len(bad) == 0 && nRet >= 1, sprintf("%d nil-result edge(s) examined, %d inotify_add_watch site(s); %s", nRet, n, strings.Join(uniq(bad), "; ")))
}

// c04RemoveExact: deletes on the Remove flow concern the named path unless under the recursive flag.
func c04RemoveExact(a *An, tf *tableFacts, rm *ssa.Function, rule string) {
	w := a.walk(rm)
	ops := collectTableOps(a, tf, w)
	param := ""
	if len(rm.Params) > 1 {
		param = "p:" + rm.Params[1].Name()
	}
	for _, op := range ops {
		if op.Kind != "delete" {
			continue
		}
		named := strings.Contains(op.Key, param) && !strings.Contains(op.Key, "range(")
		underRec, _ := op.V.Cond.everyConj(func(c Conj) bool {
			return c.has(func(l Lit) bool { return l.A.Kind == AkBool && !l.Neg && strings.HasSuffix(l.A.Subj, ".recurse") })
		})
		wit := "keyed by the named path"
		if !named {
			wit = "other entries are deleted only under the watch's recursive flag"
		}
		if !named && !underRec {
			wit = "deletes an entry other than the named path without the recursive flag, under " + stripIDs(op.V.Cond.String())
		}
		a.R.ob(rule, sprintf("remove:delete(%s[%s])", op.Table.Name(), tail(stripCallArgs(op.Key), 60)), "Remove ends exactly the named watch; other entries go only with a recursive watch",
			a.P.instrPos(op.V.Instr), named || underRec, wit)
	}
}

func c04WatchList(a *An, tf *tableFacts) {
	wl := a.Ro.API["WatchList"]
	if wl == nil {
		return
	}
	w := a.walk(wl)
	// the result is built by appending the range keys of the path table
	var appends []string
	ok := true
	n := 0
	for _, v := range w.Visits {
		call, isCall := v.Instr.(*ssa.Call)
		if !isCall {
			continue
		}
		args, isApp := isBuiltinCall(call, "append")
		if !isApp || len(args) != 2 {
			continue
		}
		n++
		// appended element(s): the variadic slice's stored element
		sl, _ := args[1].(*ssa.Slice)
		elem := ""
		if sl != nil {
			if al, okA := sl.X.(*ssa.Alloc); okA {
				if refs := al.Referrers(); refs != nil {
					for _, r := range *refs {
						if ia, okI := r.(*ssa.IndexAddr); okI {
							if rr := ia.Referrers(); rr != nil {
								for _, u := range *rr {
									if st, okS := u.(*ssa.Store); okS && st.Addr == ssa.Value(ia) {
										elem = stripIDs(v.Ctx.path(st.Val))
									}
								}
							}
						}
					}
				}
			}
		}
		appends = append(appends, elem)
		if !(strings.HasSuffix(elem, "#k") && strings.Contains(elem, "range(recv.") && strings.Contains(elem, "."+tf.pathTable.Name()+")")) {
			ok = false
		}
		if !v.Cond.isTrue() {
			// only the closed guard and loop condition may appear
			for _, c := range v.Cond {
				for _, l := range c {
					if t, _ := a.Ro.closedLit(l); t {
						continue
					}
					if l.A.Kind == AkOpaque && strings.Contains(l.A.Subj, "next(range(") {
						continue
					}
					ok = false
					appends = append(appends, "filtered by "+stripIDs(l.String()))
				}
			}
		}
	}
	a.R.ob("C04.6", "watchlist:keys-of-path-table", "WatchList returns exactly the keys of the path table (one per watched file, no filter)", a.P.pos(wl.Pos()), ok && n == 1, sprintf("appended: %s", fmtList(appends)))
	_ = types.Typ
}

package main

import (
	"go/token"
	"go/types"
	"sort"
	"strings"

	"golang.org/x/tools/go/ssa"
)

// Further structural rules for C20 (added in the seventh round). None of them decides the edit script; each is a
// necessary condition of a clause of the statement whose truth is in the shape of the code:
//
//	C20.5  context trimming: wherever the grouping function bounds an unchanged run by the context parameter n it keeps
//	       exactly n lines: the trailing context is min(x, y+n), the leading context max(x, y-n), with coefficient 1 and
//	       no constant ("no more than three unchanged lines at either end of a hunk", and no fewer than the hunk needs
//	       to be applicable).
//	C20.6  the range formatter of the hunk header: the numbers it renders are start+1 (or start, only under the
//	       empty-range test) and stop-start - the arithmetic of "hunk headers that agree with their bodies".
//	C20.7  header and body agree on their source: the two header ranges are taken from the first element's start field
//	       and the last element's stop field of the group, and these are the same fields of the opcode record with which the
//	       body slices the first text (for ' ' and '-' lines) and the second text (for '+' lines), in the order -/+.

// minMaxKind classifies a two-int function as "min" or "max" by its shape (a single comparison of the two parameters,
// each branch returning one of them); "" if it is neither.
func minMaxKind(fn *ssa.Function) string {
	if fn == nil || len(fn.Params) != 2 || fn.Signature.Recv() != nil || len(fn.Blocks) == 0 {
		return ""
	}
	a, b := fn.Params[0], fn.Params[1]
	iff, ok := fn.Blocks[0].Instrs[len(fn.Blocks[0].Instrs)-1].(*ssa.If)
	if !ok {
		return ""
	}
	bin, ok := iff.Cond.(*ssa.BinOp)
	if !ok {
		return ""
	}
	x, y, op := stripConv(bin.X), stripConv(bin.Y), bin.Op
	switch op {
	case token.GTR:
		x, y, op = y, x, token.LSS
	case token.GEQ:
		x, y, op = y, x, token.LEQ
	}
	if op != token.LSS && op != token.LEQ {
		return ""
	}
	if !((x == ssa.Value(a) && y == ssa.Value(b)) || (x == ssa.Value(b) && y == ssa.Value(a))) {
		return ""
	}
	// on the true edge x <= y (or x < y)
	ret := func(blk *ssa.BasicBlock) ssa.Value {
		for len(blk.Instrs) == 1 {
			if j, ok := blk.Instrs[0].(*ssa.Jump); ok {
				_ = j
				blk = blk.Succs[0]
				continue
			}
			break
		}
		if r, ok := blk.Instrs[len(blk.Instrs)-1].(*ssa.Return); ok && len(r.Results) == 1 {
			v := stripConv(r.Results[0])
			if ph, ok := v.(*ssa.Phi); ok {
				_ = ph
				return nil
			}
			return v
		}
		return nil
	}
	t, f := ret(fn.Blocks[0].Succs[0]), ret(fn.Blocks[0].Succs[1])
	if t == nil || f == nil {
		return ""
	}
	switch {
	case t == x && f == y:
		return "min"
	case t == y && f == x:
		return "max"
	}
	return ""
}

func c20ContextTrim(a *An) {
	n := 0
	for _, fn := range a.P.srcFuncs(a.P.Ztest) {
		var ctxParams []ssa.Value
		for _, prm := range fn.Params {
			if b, ok := prm.Type().Underlying().(*types.Basic); ok && b.Kind() == types.Int {
				ctxParams = append(ctxParams, prm)
			}
		}
		if len(ctxParams) == 0 || minMaxKind(fn) != "" {
			continue
		}
		isCtx := func(v ssa.Value) bool {
			v = stripConv(v)
			if isCtxParam(ctxParams, v) {
				return true
			}
			if ph, ok := v.(*ssa.Phi); ok {
				has := false
				for _, e := range ph.Edges {
					if _, isK := e.(*ssa.Const); isK {
						continue
					}
					if !isCtxParam(ctxParams, e) {
						return false
					}
					has = true
				}
				return has
			}
			return false
		}
		for _, b := range fn.Blocks {
			for _, in := range b.Instrs {
				call, ok := in.(*ssa.Call)
				if !ok || len(call.Call.Args) != 2 {
					continue
				}
				kind := ""
				if bi, ok := call.Call.Value.(*ssa.Builtin); ok && (bi.Name() == "min" || bi.Name() == "max") {
					kind = bi.Name()
				} else if cal := call.Call.StaticCallee(); cal != nil {
					kind = minMaxKind(cal)
				}
				if kind == "" {
					continue
				}
				l0, l1 := lin(call.Call.Args[0]), lin(call.Call.Args[1])
				if !l0.ok || !l1.ok {
					continue
				}
				coefOf := func(l linForm) (int64, bool) {
					for v, c := range l.terms {
						if isCtx(v) {
							return c, true
						}
					}
					return 0, false
				}
				c0, h0 := coefOf(l0)
				c1, h1 := coefOf(l1)
				if h0 == h1 {
					continue // the context parameter is in neither or in both operands: not a trimming
				}
				withN, coef, other := l1, c1, l0
				if h0 {
					withN, coef, other = l0, c0, l1
				}
				n++
				want := int64(1)
				if kind == "max" {
					want = -1
				}
				ok2 := coef == want && withN.k == 0 && other.k == 0 && len(withN.terms) == 2 && len(other.terms) == 1
				a.R.ob("C20.5", "context-trim@"+fn.Name()+":"+kind, "an unchanged run at the end (min) or the beginning (max) of a hunk is cut to exactly the context parameter: min(x, y+n) / max(x, y-n)", a.P.instrPos(call), ok2,
					sprintf("%s(…): coefficient of the context parameter %+d, constants %+d/%+d", kind, coef, withN.k, other.k))
			}
		}
	}
	if n < 4 {
		a.R.fail("anchor unresolved: fewer than 4 context trimmings (min/max against the context parameter) in the hunk grouping (found %d)", n)
	}
}

// c20RangeFormatter: the function of two ints that renders one range of a hunk header.
func c20RangeFormatters(a *An) []*ssa.Function {
	var out []*ssa.Function
	for _, fn := range a.P.srcFuncs(a.P.Ztest) {
		sig := fn.Signature
		if sig.Recv() != nil || sig.Params().Len() != 2 || sig.Results().Len() != 1 || !isString(sig.Results().At(0).Type()) {
			continue
		}
		okp := true
		for i := 0; i < 2; i++ {
			if b, ok := sig.Params().At(i).Type().Underlying().(*types.Basic); !ok || b.Kind() != types.Int {
				okp = false
			}
		}
		if okp {
			out = append(out, fn)
		}
	}
	return out
}

func c20RangeFormat(a *An, fn *ssa.Function) {
	start, stop := ssa.Value(fn.Params[0]), ssa.Value(fn.Params[1])
	// blocks dominated by the true edge of a test "stop-start == 0" (in any spelling that is linear in the parameters)
	var emptyBlocks []*ssa.BasicBlock
	emptyEdge := map[*ssa.BasicBlock]*ssa.BasicBlock{} // test block -> successor taken when the range is empty
	for _, b := range fn.Blocks {
		iff, ok := b.Instrs[len(b.Instrs)-1].(*ssa.If)
		if !ok {
			continue
		}
		bin, ok := iff.Cond.(*ssa.BinOp)
		if !ok || (bin.Op != token.EQL && bin.Op != token.NEQ) {
			continue
		}
		lx, ly := lin(bin.X), lin(bin.Y)
		if !lx.ok || !ly.ok {
			continue
		}
		// lx - ly == 0  <=>  stop - start == 0 ?
		d := map[ssa.Value]int64{}
		for v, c := range lx.terms {
			d[v] += c
		}
		for v, c := range ly.terms {
			d[v] -= c
		}
		k := lx.k - ly.k
		for v, c := range d {
			if c == 0 {
				delete(d, v)
			}
		}
		if k != 0 || len(d) != 2 || !((d[stop] == 1 && d[start] == -1) || (d[stop] == -1 && d[start] == 1)) {
			continue
		}
		if bin.Op == token.EQL {
			emptyBlocks = append(emptyBlocks, b.Succs[0])
			emptyEdge[b] = b.Succs[0]
		} else {
			emptyBlocks = append(emptyBlocks, b.Succs[1])
			emptyEdge[b] = b.Succs[1]
		}
	}
	underEmpty := func(b *ssa.BasicBlock) bool {
		for _, e := range emptyBlocks {
			if len(e.Preds) == 1 && e.Dominates(b) {
				return true
			}
		}
		return false
	}
	// every int rendered by the function: operands of formatting calls (through the variadic slice) and of strconv calls
	type rendered struct {
		v   ssa.Value
		blk *ssa.BasicBlock
		pos token.Pos
	}
	var rs []rendered
	for _, b := range fn.Blocks {
		for _, in := range b.Instrs {
			switch x := in.(type) {
			case *ssa.MakeInterface:
				if bt, ok := x.X.Type().Underlying().(*types.Basic); ok && bt.Info()&types.IsInteger != 0 {
					rs = append(rs, rendered{x.X, b, x.Pos()})
				}
			case *ssa.Call:
				if cal := x.Call.StaticCallee(); cal != nil && cal.Pkg != nil && cal.Pkg.Pkg.Path() == "strconv" {
					for _, arg := range x.Call.Args {
						if bt, ok := arg.Type().Underlying().(*types.Basic); ok && bt.Info()&types.IsInteger != 0 {
							if _, isK := stripConv(arg).(*ssa.Const); !isK {
								rs = append(rs, rendered{arg, b, x.Pos()})
							}
						}
					}
				}
			}
		}
	}
	if len(rs) == 0 {
		a.R.fail("anchor unresolved: %s renders no integer (range formatter of the hunk header)", fn.Name())
		return
	}
	sawBegin, sawLen, sawEmptyStart := false, false, false
	var wit []string
	okAll := true
	var expand func(v ssa.Value, blk *ssa.BasicBlock, seen map[ssa.Value]bool, viaEmptyEdge bool)
	expand = func(v ssa.Value, blk *ssa.BasicBlock, seen map[ssa.Value]bool, viaEmptyEdge bool) {
		underEmpty := func(b *ssa.BasicBlock) bool { return viaEmptyEdge || underEmpty(b) }
		v = stripConv(v)
		if seen[v] {
			return
		}
		seen[v] = true
		if ph, ok := v.(*ssa.Phi); ok {
			for i, e := range ph.Edges {
				pred := ph.Block().Preds[i]
				expand(e, pred, seen, viaEmptyEdge || emptyEdge[pred] == ph.Block())
			}
			return
		}
		l := lin(v)
		form := "?"
		switch {
		case !l.ok:
		case len(l.terms) == 1 && l.terms[start] == 1 && l.k == 1:
			form = "start+1"
			sawBegin = true
		case len(l.terms) == 1 && l.terms[start] == 1 && l.k == 0:
			form = "start"
			if !underEmpty(blk) {
				form = "start (not under the empty-range test)"
				okAll = false
			} else {
				sawEmptyStart = true
			}
		case len(l.terms) == 2 && l.terms[stop] == 1 && l.terms[start] == -1 && l.k == 0:
			form = "stop-start"
			sawLen = true
		case len(l.terms) == 0 && l.k == 0 && underEmpty(blk):
			form = "0 (under the empty-range test)"
		default:
			form = "other"
		}
		if form == "?" || form == "other" {
			okAll = false
			form = "not start+1 / stop-start"
		}
		wit = append(wit, form)
	}
	for _, r := range rs {
		expand(r.v, r.blk, map[ssa.Value]bool{}, false)
	}
	sort.Strings(wit)
	a.R.ob("C20.6", "range-format@"+fn.Name(), "a hunk-header range renders start+1 (start for an empty range, and only then) and the length stop-start, nothing else", a.P.pos(fn.Pos()), okAll && sawBegin && sawLen && sawEmptyStart, strings.Join(wit, ", "))
}

// c20HeaderBody: header ranges and body slices use the same fields of the opcode record.
func c20HeaderBody(a *An, rfs []*ssa.Function) {
	isRF := func(f *ssa.Function) bool {
		for _, r := range rfs {
			if r == f {
				return true
			}
		}
		return false
	}
	found := false
	type hdr struct{ lo, hi string }
	type body struct{ sign, text, lo, hi string }
	type cand struct {
		fn   *ssa.Function
		hs   []hdr
		hpos []token.Pos
		bs   []body
		n    int
	}
	var best *cand
	for _, fn := range a.P.srcFuncs(a.P.Ztest) {
		if isRF(fn) {
			continue
		}
		w := a.E.Walk(fn, WalkOpts{Pkg: a.P.Ztest, MaxDepth: 2})
		c := &cand{fn: fn, n: len(w.Visits)}
		signs := map[string]bool{}
		for _, v := range w.Visits {
			switch x := v.Instr.(type) {
			case *ssa.Call:
				if cal := x.Call.StaticCallee(); cal != nil && isRF(cal) {
					c.hs = append(c.hs, hdr{v.Ctx.path(x.Call.Args[0]), v.Ctx.path(x.Call.Args[1])})
					c.hpos = append(c.hpos, x.Pos())
				}
			case *ssa.Slice:
				if x.Low == nil || x.High == nil {
					continue
				}
				sign := sliceSign(x)
				if sign == "" {
					continue
				}
				signs[sign] = true
				c.bs = append(c.bs, body{sign, v.Ctx.path(x.X), v.Ctx.path(x.Low), v.Ctx.path(x.High)})
			}
		}
		if len(c.hs) == 0 || !(signs["-"] && signs["+"] && signs[" "]) {
			continue
		}
		if best == nil || c.n < best.n {
			best = c
		}
	}
	for _, c := range []*cand{best} {
		if c == nil {
			break
		}
		found = true
		fn, hs, hpos, bs := c.fn, c.hs, c.hpos, c.bs
		a.R.Sites += c.n
		if len(hs) != 2 {
			a.R.fail("anchor unresolved: %s calls the range formatter %d times (expected the two ranges of one hunk header)", fn.Name(), len(hs))
			continue
		}
		if hpos[1] < hpos[0] {
			hs[0], hs[1] = hs[1], hs[0]
		}
		lastField := func(p string) (string, string) {
			i := strings.LastIndex(p, ".")
			if i < 0 {
				return p, ""
			}
			return p[:i], p[i+1:]
		}
		// the fields with which the body slices each text
		fieldsOf := map[string][2]string{} // sign -> lo/hi field
		textOf := map[string]string{}
		okBody := true
		var bw []string
		for _, b := range bs {
			_, lf := lastField(b.lo)
			_, hf := lastField(b.hi)
			bw = append(bw, sprintf("'%s' lines = %s[.%s:.%s]", b.sign, b.text, lf, hf))
			if old, ok := fieldsOf[b.sign]; ok && (old != [2]string{lf, hf} || textOf[b.sign] != b.text) {
				okBody = false
			}
			fieldsOf[b.sign] = [2]string{lf, hf}
			textOf[b.sign] = b.text
		}
		sort.Strings(bw)
		_, hasM := fieldsOf["-"]
		_, hasP := fieldsOf["+"]
		_, hasE := fieldsOf[" "]
		if !hasM || !hasP || !hasE {
			a.R.fail("anchor unresolved: %s: the body loops over the removed, added and unchanged lines were not all found (%s)", fn.Name(), strings.Join(bw, "; "))
			continue
		}
		// unchanged lines may be printed from either text (they are equal by the matcher's invariant), by that text's pair
		ctxOK := (fieldsOf[" "] == fieldsOf["-"] && textOf[" "] == textOf["-"]) || (fieldsOf[" "] == fieldsOf["+"] && textOf[" "] == textOf["+"])
		okBody = okBody && ctxOK && textOf["-"] != textOf["+"] && fieldsOf["-"] != fieldsOf["+"] &&
			fieldsOf["-"][0] != fieldsOf["-"][1] && fieldsOf["+"][0] != fieldsOf["+"][1]
		a.R.ob("C20.7", "body-sources@"+fn.Name(), "removed lines are slices of the first text by one pair of opcode fields, added lines slices of the second text by the other pair, unchanged lines either of the two", a.P.pos(fn.Pos()), okBody, strings.Join(bw, "; "))
		// header: first element's lo field, last element's hi field, '-' pair first
		for i, sign := range []string{"-", "+"} {
			lb, lf := lastField(hs[i].lo)
			hb, hf := lastField(hs[i].hi)
			want := fieldsOf[sign]
			firstOK := strings.HasSuffix(lb, "[c:0]")
			grp := strings.TrimSuffix(lb, "[c:0]")
			lastOK := hb == grp+"[(call:len("+grp+")-c:1)]" || hb == grp+"[(len("+grp+")-c:1)]"
			ok := lf == want[0] && hf == want[1] && firstOK && lastOK
			a.R.ob("C20.7", "header-range@"+fn.Name()+":"+sign, "the '"+sign+"' range of the hunk header runs from the start field of the group's first opcode to the stop field of its last, the fields the body uses for those lines", a.P.pos(hpos[i]), ok,
				sprintf("%s .. %s; body uses .%s/.%s", stripIDs(hs[i].lo), stripIDs(hs[i].hi), want[0], want[1]))
		}
	}
	if !found {
		a.R.fail("anchor unresolved: no function of internal/ztest both calls the range formatter of the hunk header and writes the '-', '+' and ' ' lines of a hunk")
	}
}

// sliceSign: the slice is ranged over and each element is written after a constant prefix; the sign is the first byte of
// that prefix ('-', '+' or ' ').
func sliceSign(sl *ssa.Slice) string {
	sign := ""
	seen := map[ssa.Value]bool{}
	var follow func(v ssa.Value, depth int)
	follow = func(v ssa.Value, depth int) {
		if seen[v] || depth > 6 || v.Referrers() == nil {
			return
		}
		seen[v] = true
		for _, r := range *v.Referrers() {
			switch x := r.(type) {
			case *ssa.BinOp:
				if x.Op == token.ADD && isString(x.Type()) {
					if k, ok := x.X.(*ssa.Const); ok && k.Value != nil {
						s := strings.Trim(k.Value.ExactString(), `"`)
						if len(s) > 0 {
							sign = s[:1]
						}
					}
				}
			case *ssa.Call:
				cal := x.Call.StaticCallee()
				for i, arg := range x.Call.Args {
					if k, ok := arg.(*ssa.Const); ok && k.Value != nil && isString(k.Type()) {
						if t := strings.Trim(k.Value.ExactString(), `"`); len(t) > 0 && sign == "" {
							sign = t[:1]
						}
					}
					if arg == v && sign == "" && cal != nil && len(cal.Blocks) > 0 && i < len(cal.Params) {
						follow(cal.Params[i], depth+1)
					}
				}
			case *ssa.IndexAddr:
				follow(x, depth+1)
			case *ssa.Index:
				follow(x, depth+1)
			case *ssa.UnOp:
				follow(x, depth+1)
			case *ssa.Range:
				follow(x, depth+1)
			case *ssa.Next:
				follow(x, depth+1)
			case *ssa.Extract:
				follow(x, depth+1)
			case *ssa.Phi:
				follow(x, depth+1)
			}
		}
	}
	follow(sl, 0)
	return sign
}

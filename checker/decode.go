package main

// Shape facts about the inotify reader's decode loop, shared by C01, C02, C03, C08, C13.

import (
	"go/token"
	"go/types"

	"golang.org/x/tools/go/ssa"
)

type Loop struct {
	Header  *ssa.BasicBlock
	Blocks  map[*ssa.BasicBlock]bool
	Latches []*ssa.BasicBlock
}

func naturalLoops(fn *ssa.Function) []*Loop {
	byHeader := map[*ssa.BasicBlock]*Loop{}
	var order []*Loop
	for _, b := range fn.Blocks {
		for _, s := range b.Succs {
			if !isBackEdge(b, s) {
				continue
			}
			l := byHeader[s]
			if l == nil {
				l = &Loop{Header: s, Blocks: map[*ssa.BasicBlock]bool{s: true}}
				byHeader[s] = l
				order = append(order, l)
			}
			l.Latches = append(l.Latches, b)
			// blocks that reach b without passing through s
			stack := []*ssa.BasicBlock{b}
			for len(stack) > 0 {
				x := stack[len(stack)-1]
				stack = stack[:len(stack)-1]
				if l.Blocks[x] {
					continue
				}
				l.Blocks[x] = true
				for _, p := range x.Preds {
					stack = append(stack, p)
				}
			}
		}
	}
	return order
}

// innermost loop containing block b
func innermostLoop(loops []*Loop, b *ssa.BasicBlock) *Loop {
	var best *Loop
	for _, l := range loops {
		if l.Blocks[b] && (best == nil || len(l.Blocks) < len(best.Blocks)) {
			best = l
		}
	}
	return best
}

type exitEdge struct {
	From    *ssa.BasicBlock
	To      *ssa.BasicBlock
	SuccIdx int
}

func (l *Loop) exits() []exitEdge {
	var out []exitEdge
	for b := range l.Blocks {
		for i, s := range b.Succs {
			if !l.Blocks[s] {
				out = append(out, exitEdge{b, s, i})
			}
		}
	}
	return out
}

type DecodeFacts struct {
	Reader      *ssa.Function
	LoopFn      *ssa.Function // function holding the decode loop: the reader or a helper it calls
	Chain       []*ssa.Call   // call sites leading from the reader to LoopFn (empty when LoopFn == Reader)
	ReaderLoops []*Loop       // loops of the reader function
	Loops       []*Loop       // loops of LoopFn
	Loop        *Loop
	RecordConv  ssa.Value       // the *unix.InotifyEvent pointer
	RecordIdx   *ssa.IndexAddr  // &buf[offset]
	ConvInner   ssa.Value       // the conversion itself (== RecordConv unless it lives in a cast helper)
	IdxChain    []*ssa.Call     // call sites from the reader to the function holding RecordIdx (Chain, plus a cast helper)
	BodyAnchor  ssa.Instruction // an instruction of LoopFn executed once per record (the index computation or the cast helper's call)
	OffsetPhi   *ssa.Phi
	Handler     *ssa.Function
	HandlerCall *ssa.Call
	SendCalls   []*ssa.Call // calls of the event send function inside the loop
	ErrCalls    []*ssa.Call // calls of the error send function inside the loop
	RecordType  *types.Named
}

// stripConv follows conversions backwards.
func stripConv(v ssa.Value) ssa.Value {
	for {
		switch x := v.(type) {
		case *ssa.Convert:
			v = x.X
		case *ssa.ChangeType:
			v = x.X
		default:
			return v
		}
	}
}

func isNamedPtr(t types.Type, pkgSuffix, name string) (*types.Named, bool) {
	p, ok := t.Underlying().(*types.Pointer)
	if !ok {
		return nil, false
	}
	n, ok := p.Elem().(*types.Named)
	if !ok || n.Obj().Name() != name || n.Obj().Pkg() == nil {
		return nil, false
	}
	if pkgSuffix != "" && n.Obj().Pkg().Path() != pkgSuffix {
		return nil, false
	}
	return n, true
}

func decodeFacts(a *An) *DecodeFacts {
	ro := a.Ro
	if len(ro.Readers) != 1 {
		a.R.fail("anchor unresolved: single reader goroutine (found %d)", len(ro.Readers))
		return nil
	}
	rd := ro.Readers[0]
	df := &DecodeFacts{Reader: rd, ReaderLoops: naturalLoops(rd)}
	// the decode loop lives in the reader or in a package-local helper it (transitively) calls
	type cand struct {
		fn    *ssa.Function
		chain []*ssa.Call
	}
	seen := map[*ssa.Function]bool{rd: true}
	queue := []cand{{rd, nil}}
	for len(queue) > 0 {
		cur := queue[0]
		queue = queue[1:]
		for _, b := range cur.fn.Blocks {
			for _, in := range b.Instrs {
				if call, ok := in.(*ssa.Call); ok && len(cur.chain) < 3 {
					if cal := call.Call.StaticCallee(); cal != nil && a.P.inMain(cal) && cal.Blocks != nil && !seen[cal] {
						seen[cal] = true
						queue = append(queue, cand{cal, append(append([]*ssa.Call(nil), cur.chain...), call)})
					}
				}
				cv, ok := in.(*ssa.Convert)
				if !ok {
					continue
				}
				n, ok := isNamedPtr(cv.Type(), "golang.org/x/sys/unix", "InotifyEvent")
				if !ok {
					continue
				}
				base := stripConv(cv.X)
				ia, ok := base.(*ssa.IndexAddr)
				if !ok {
					continue
				}
				if df.RecordConv != nil {
					a.R.fail("anchor unresolved: more than one conversion of a buffer address to *unix.InotifyEvent under %s", shortFn(rd))
					return nil
				}
				df.RecordConv = cv
				df.RecordIdx = ia
				df.RecordType = n
				df.LoopFn = cur.fn
				df.Chain = cur.chain
				df.Loops = naturalLoops(cur.fn)
				df.Loop = innermostLoop(df.Loops, b)
			}
		}
	}
	df.IdxChain = df.Chain
	df.ConvInner = df.RecordConv
	if df.RecordIdx != nil {
		df.BodyAnchor = df.RecordIdx
	}
	var recordIndex ssa.Value
	if df.RecordIdx != nil {
		recordIndex = df.RecordIdx.Index
	}
	// the cast may live in a tiny helper `recordAt(buf, offset)` called from the loop: then the record pointer is that
	// call's result, and the offset is the argument bound to the helper's index parameter
	if df.RecordConv != nil && df.Loop == nil && len(df.Chain) > 0 {
		site := df.Chain[len(df.Chain)-1]
		helper := df.LoopFn
		returnsIt := false
		for _, b := range helper.Blocks {
			if r, ok := b.Instrs[len(b.Instrs)-1].(*ssa.Return); ok && len(r.Results) == 1 && stripConv(r.Results[0]) == stripConv(df.RecordConv) {
				returnsIt = true
			}
		}
		if prm, ok := stripConv(df.RecordIdx.Index).(*ssa.Parameter); ok && returnsIt {
			for i, hp := range helper.Params {
				if hp == prm && i < len(site.Call.Args) {
					recordIndex = site.Call.Args[i]
				}
			}
			df.LoopFn = site.Parent()
			df.Chain = df.Chain[:len(df.Chain)-1]
			df.Loops = naturalLoops(df.LoopFn)
			df.Loop = innermostLoop(df.Loops, site.Block())
			df.RecordConv = site
			df.BodyAnchor = site
		}
	}
	if df.RecordConv == nil || df.Loop == nil {
		a.R.fail("anchor unresolved: decode loop (a loop in %s converting &buf[offset] to *unix.InotifyEvent)", shortFn(rd))
		return nil
	}
	if ph, ok := stripConv(recordIndex).(*ssa.Phi); ok && ph.Block() == df.Loop.Header {
		df.OffsetPhi = ph
	}
	for b := range df.Loop.Blocks {
		for _, in := range b.Instrs {
			call, ok := in.(*ssa.Call)
			if !ok {
				continue
			}
			cal := call.Call.StaticCallee()
			if cal == nil {
				continue
			}
			// a wrapper called with a zero event / a nil error sends nothing of that kind
			if ev := ro.eventArg(call); ev != nil && ro.isSendEvent(cal) {
				if _, isWrap := ro.SendWrap[cal]; !isWrap || !isZeroValue(ev) {
					df.SendCalls = append(df.SendCalls, call)
				}
			}
			if er := ro.errorArg(call); er != nil && ro.isSendError(cal) {
				if _, isWrap := ro.SendWrap[cal]; !isWrap || !isNilConst(er) {
					df.ErrCalls = append(df.ErrCalls, call)
				}
			}
			for _, arg := range call.Call.Args {
				if arg == df.RecordConv && a.P.inMain(cal) {
					if df.HandlerCall != nil && df.HandlerCall != call {
						a.R.fail("anchor unresolved: the record pointer is passed to more than one function in the decode loop")
						return nil
					}
					df.HandlerCall = call
					df.Handler = cal
				}
			}
		}
	}
	if df.Handler == nil {
		a.R.fail("anchor unresolved: event handler (the function receiving the *unix.InotifyEvent of the decode loop)")
		return nil
	}
	return df
}

// isZeroValue: v is a zero constant, or a load of a local cell that is never stored to (Event{}).
func isZeroValue(v ssa.Value) bool {
	v = stripConv(v)
	if k, ok := v.(*ssa.Const); ok {
		return k.Value == nil
	}
	if ld, ok := v.(*ssa.UnOp); ok && ld.Op == token.MUL {
		if al, ok := ld.X.(*ssa.Alloc); ok {
			return len(cellStores(al)) == 0 && !fieldStored(al) && !cellEscapes(al)
		}
	}
	return false
}

// linear form: sum of coef*value + const, over ADD / conversions / constants.
type linForm struct {
	terms map[ssa.Value]int64
	k     int64
	ok    bool
}

func lin(v ssa.Value) linForm {
	lf := linForm{terms: map[ssa.Value]int64{}, ok: true}
	var rec func(v ssa.Value, coef int64)
	rec = func(v ssa.Value, coef int64) {
		v = stripConv(v)
		switch x := v.(type) {
		case *ssa.Const:
			if k, ok := constUint(x); ok {
				lf.k += coef * int64(k)
				return
			}
			lf.ok = false
		case *ssa.BinOp:
			switch x.Op {
			case token.ADD:
				rec(x.X, coef)
				rec(x.Y, coef)
				return
			case token.SUB:
				rec(x.X, coef)
				rec(x.Y, -coef)
				return
			case token.MUL:
				if k, ok := constUint(x.Y); ok {
					rec(x.X, coef*int64(k))
					return
				}
				if k, ok := constUint(x.X); ok {
					rec(x.Y, coef*int64(k))
					return
				}
			}
			lf.terms[v] += coef
		default:
			lf.terms[v] += coef
		}
	}
	rec(v, 1)
	return lf
}

// recordField reports whether v is a load of field `name` of the record pointer.
func (df *DecodeFacts) recordField(v ssa.Value, name string) bool {
	v = stripConv(v)
	u, ok := v.(*ssa.UnOp)
	if !ok || u.Op != token.MUL {
		return false
	}
	fa, ok := u.X.(*ssa.FieldAddr)
	if !ok || fa.X != df.RecordConv {
		return false
	}
	return fieldName(fa.X.Type(), fa.Field) == name
}

// visitOf finds the shallowest visit of an instruction (of the reader, or of the helper holding the decode loop).
func visitOf(w *Walker, in ssa.Instruction) *Visit {
	var best *Visit
	for _, v := range w.Visits {
		if v.Instr == in && (best == nil || v.Ctx.Depth < best.Ctx.Depth) {
			best = v
		}
	}
	return best
}

// idxCtx: the context of the function holding the buffer index computation (the loop function, or the cast helper).
func (df *DecodeFacts) idxCtx(root *Ctx) *Ctx {
	c := root
	for _, site := range df.IdxChain {
		k := c.calleeCtx(site, &site.Call)
		if k == nil {
			return c
		}
		c = k
	}
	return c
}

// loopCtx: the context of the function holding the decode loop, as inlined from the reader root.
func (df *DecodeFacts) loopCtx(root *Ctx) *Ctx {
	c := root
	for _, site := range df.Chain {
		k := c.calleeCtx(site, &site.Call)
		if k == nil {
			return c
		}
		c = k
	}
	return c
}

// inReader resolves a value of the decode-loop function to the reader's value it is bound to.
func (df *DecodeFacts) inReader(e *Engine, v ssa.Value) ssa.Value {
	v = stripConv(v)
	c := df.loopCtx(e.rootCtx(df.Reader))
	for i := 0; i < 4; i++ {
		rv, rc := c.resolve(v)
		rv = stripConv(rv)
		if rv == v && rc == c {
			break
		}
		v, c = rv, rc
	}
	return v
}

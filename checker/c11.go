package main

import (
	"go/token"
	"go/types"
	"sort"
	"strings"

	"golang.org/x/tools/go/ssa"
)

func init() {
	register(&property{
		Meta: propMeta{
			ID:    "C11",
			Title: "Rename correlation: Create carries the old name of the same move, or none",
			Explanation: "Shape and origin rules over the SSA of the inotify translator. Decided: " +
				"(1) the event's old-name field has exactly one store in the backend; it executes only when the cookie is non-zero and the mask has IN_MOVED_TO; the stored value is, edge by edge, either the empty string or the path of a ring slot on an edge conditioned on slot.cookie == this record's cookie - never a slot found by other means, never under a plain IN_CREATE; " +
				"(2) a ring slot is written only when the cookie is non-zero and the mask has IN_MOVED_FROM, with this record's cookie and the Name of the very event being returned (so the old name equals the Rename event's name); ring and index are accessed under the ring's mutex; " +
				"(3) index safety: the slot index is the index field, which after every increment is reset to zero by a test whose constant agrees with the array length taken from the type (forms > N-1, >= N, == N, % N), so the index stays below the ring length for histories of any length; " +
				"(4) Event.String renders the old name when present (C16.3). " +
				"Not decided: interleavings of the halves of different moves; ring capacity versus history length ('or none' is permitted).",
			Rule:        "one obligation per store to the old-name field, per phi edge of the stored value, per ring write, per index update",
			Assumptions: []string{"go/types + go/ssa", "array length read from the field's type"},
			MinObl:      6,
		},
		Configs: tiered(linuxQuick, linuxAll),
		Run:     runC11,
	})
}

// phiEdgeCond: condition (local to ctx.Fn) under which control enters phi's block through edge i.
func phiEdgeCond(c *Ctx, phi *ssa.Phi, i int) DNF {
	conds, err := c.conds()
	if err != nil {
		return dnfTrue()
	}
	pred := phi.Block().Preds[i]
	d, ok := conds[pred]
	if !ok {
		return dnfFalse()
	}
	for si, s := range pred.Succs {
		if s == phi.Block() {
			d = c.edgeCond(conds, pred, si, d)
			break
		}
	}
	return d
}

func runC11(p *Program, e *Engine, r *Result, tier string) {
	a := newAn(p, e, r, true)
	if a == nil {
		return
	}
	ro := a.Ro
	// the old-name field: Event's unexported string field
	var oldF *types.Var
	est := ro.Event.Underlying().(*types.Struct)
	for i := 0; i < est.NumFields(); i++ {
		f := est.Field(i)
		if isString(f.Type()) && !f.Exported() {
			oldF = f
		}
	}
	if oldF == nil {
		a.R.fail("anchor unresolved: Event's unexported old-name field")
		return
	}
	// the ring: array-typed field of the backend whose element has an integer and a string field
	var ringF, idxF *types.Var
	var ringLen int64
	// the ring may live in the backend struct or in a helper type it holds
	var cands []*types.Var
	for f := range ro.StructOf {
		cands = append(cands, f)
	}
	sort.Slice(cands, func(i, j int) bool { return fieldStr(ro, cands[i]) < fieldStr(ro, cands[j]) })
	for _, f := range cands {
		if arr, ok := f.Type().Underlying().(*types.Array); ok {
			if st, ok := arr.Elem().Underlying().(*types.Struct); ok && st.NumFields() == 2 {
				hasStr, hasInt := false, false
				for i := 0; i < 2; i++ {
					if isString(st.Field(i).Type()) {
						hasStr = true
					} else if isUintType(st.Field(i).Type()) {
						hasInt = true
					}
				}
				if hasStr && hasInt {
					ringF, ringLen = f, arr.Len()
				}
			}
		}
	}
	if ringF == nil {
		a.R.fail("anchor unresolved: rename-cookie ring (array field of the backend)")
		return
	}
	a.R.fact("old-name field Event.%s; ring %s of length %d", oldF.Name(), fieldStr(ro, ringF), ringLen)
	// The rules are evaluated from the translator root (the function returning Event that the handler calls), with
	// helpers inlined, so that extracting the cookie store/lookup into methods does not change the verdict.
	trs := findTranslators(a)
	if len(trs) != 1 {
		a.R.fail("anchor unresolved: translator (found %d)", len(trs))
		return
	}
	trFn := trs[0].fn
	w := a.walk(trFn)
	// (1) stores to the old-name field, anywhere in the package
	nSites := 0
	for _, fn := range a.P.srcFuncs(a.P.Main) {
		for _, b := range fn.Blocks {
			for _, in := range b.Instrs {
				if st, ok := in.(*ssa.Store); ok {
					if fa, ok := st.Addr.(*ssa.FieldAddr); ok && fieldOf(fa) == oldF {
						nSites++
					}
				}
			}
		}
	}
	a.R.ob("C11.1", "old-name:single-writer", "the old-name field of an event has exactly one writer in the backend", "-", nSites == 1, sprintf("%d store site(s)", nSites))
	movedTo, _ := unixConst(a, "IN_MOVED_TO")
	movedFrom, _ := unixConst(a, "IN_MOVED_FROM")
	hasBit := func(k uint64) func(Lit) bool {
		return func(l Lit) bool {
			return !l.Neg && (l.A.Kind == AkBit || l.A.Kind == AkAny || l.A.Kind == AkAll) && l.A.Bits == k && strings.HasSuffix(l.A.Subj, "mask")
		}
	}
	cookieNZ := func(l Lit) bool {
		return l.A.Kind == AkCmp && l.Neg && l.A.Op == "==" && l.A.K == "c:0" && strings.HasSuffix(l.A.Subj, "cookie") && !strings.Contains(l.A.Subj, "[")
	}
	ringSlot := func(c *Ctx, v ssa.Value) (slot string, ok bool) {
		p := stripIDs(c.path(v))
		pre := "." + ringF.Name() + "["
		if i := strings.Index(p, pre); i >= 0 && !strings.HasPrefix(p[i:], pre+":") && strings.HasSuffix(p, "]."+ringPathField(ringF)) && !strings.Contains(p[:i], "[") {
			return strings.TrimSuffix(p, "."+ringPathField(ringF)), true
		}
		return p, false
	}
	nOld := 0
	for _, v := range w.Visits {
		st, ok := v.Instr.(*ssa.Store)
		if !ok {
			continue
		}
		fa, ok := st.Addr.(*ssa.FieldAddr)
		if !ok || fieldOf(fa) != oldF {
			continue
		}
		nOld++
		g, bad := v.Cond.everyConj(func(c Conj) bool { return c.has(cookieNZ) && c.has(hasBit(movedTo)) })
		wit := "store reached under " + tail(stripIDs(v.Cond.String()), 300)
		if !g {
			wit = "the old name can be set under " + stripIDs(bad.String())
		}
		a.R.ob("C11.1", "old-name:guard", "the old name is set only for a record with a non-zero cookie and IN_MOVED_TO", a.P.instrPos(st), g, wit)
		for _, e := range valueEdges(v.Ctx, st.Val, dnfTrue()) {
			if k, ok := e.V.(*ssa.Const); ok && k.Value != nil && k.Value.ExactString() == `""` {
				a.R.ob("C11.1", "old-name:edge(empty)", "without a matching slot the old name stays empty", a.P.instrPos(st), true, "constant \"\"")
				continue
			}
			slot, fromRing := ringSlot(e.Ctx, e.V)
			want := slot + "." + ringCookieField(ringF)
			matched, _ := e.Cond.everyConj(func(c Conj) bool {
				return c.has(func(l Lit) bool {
					if l.A.Kind != AkCmp || l.Neg || l.A.Op != "==" {
						return false
					}
					s1, s2 := stripIDs(l.A.Subj), stripIDs(l.A.K)
					plain := func(s string) bool { return strings.HasSuffix(s, "cookie") && !strings.Contains(s, "[") }
					return (s1 == want && plain(s2)) || (s2 == want && plain(s1))
				})
			})
			a.R.ob("C11.1", "old-name:edge(slot)", "a non-empty old name is the path of a ring slot whose cookie equals this record's cookie", a.P.instrPos(st), fromRing && matched,
				sprintf("value %s on an edge conditioned on %s", tail(slot, 90), tail(stripIDs(e.Cond.String()), 300)))
			whole, _ := e.Cond.everyConj(func(c Conj) bool {
				return c.has(func(l Lit) bool {
					return l.A.Kind == AkCmp && !l.Neg && l.A.Op == "<" && l.A.K == sprintf("c:%d", ringLen)
				})
			})
			a.R.ob("C11.1", "old-name:whole-ring", "the cookie is looked up in every slot of the ring (a pending move is found wherever the index has moved to)", a.P.instrPos(st), whole && fromRing,
				sprintf("loop bound in the edge condition: expected index < %d", ringLen))
		}
	}
	if nOld == 0 {
		a.R.fail("the translator %s does not reach the store of the old-name field (vacuous)", shortFn(trFn))
	}
	// (2) ring writes, at any depth below the translator
	nRing := 0
	for _, v := range w.Visits {
		st, ok := v.Instr.(*ssa.Store)
		if !ok {
			continue
		}
		ia, ok := st.Addr.(*ssa.IndexAddr)
		if !ok || v.Ctx.fieldOfValue(ia.X) != ringF && fieldOf(ia.X) != ringF {
			continue
		}
		nRing++
		g, bad := v.Cond.everyConj(func(c Conj) bool { return c.has(cookieNZ) && c.has(hasBit(movedFrom)) })
		wit := "slot written under " + tail(stripIDs(v.Cond.String()), 300)
		if !g {
			wit = "a slot can be written under " + stripIDs(bad.String())
		}
		a.R.ob("C11.2", "ring-write:guard", "a ring slot is written only for a record with a non-zero cookie and IN_MOVED_FROM", a.P.instrPos(st), g, wit)
		a.R.ob("C11.2", "ring-write:locked", "the ring is written under its mutex", a.P.instrPos(st), len(v.Must) > 0, "must-lockset "+LockSet(v.Must).String())
		// stored struct: cookie field <- this record's cookie; path field <- Name of the returned event
		ckOK, nmOK := false, false
		var desc []string
		retName := ""
		if ret := singleReturn(trFn); ret != nil && len(ret.Results) >= 1 {
			retName = stripIDs(w.Visits[0].Ctx.root().path(ret.Results[0])) + ".Name"
		} else {
			// several returns: all must return the same event cell
			for _, b := range trFn.Blocks {
				if r, ok := b.Instrs[len(b.Instrs)-1].(*ssa.Return); ok && len(r.Results) >= 1 {
					retName = stripIDs(w.Visits[0].Ctx.root().path(r.Results[0])) + ".Name"
				}
			}
		}
		// the returned event's Name as a value: what is stored into the Name field of the event cell that is returned
		retNameVal := ""
		for _, b := range trFn.Blocks {
			if r, ok := b.Instrs[len(b.Instrs)-1].(*ssa.Return); ok && len(r.Results) >= 1 {
				if rl, ok := r.Results[0].(*ssa.UnOp); ok && rl.Op == token.MUL {
					if eal, ok := rl.X.(*ssa.Alloc); ok {
						if est, ok := deref(eal.Type()).Underlying().(*types.Struct); ok {
							for i := 0; i < est.NumFields(); i++ {
								if est.Field(i).Name() == "Name" {
									if fs := localFieldStore(eal, i); fs != nil {
										retNameVal = stripIDs(w.Visits[0].Ctx.root().path(fs.Val))
									}
								}
							}
						}
					}
				}
			}
		}
		if ld, ok := st.Val.(*ssa.UnOp); ok && ld.Op == token.MUL {
			if al, ok := ld.X.(*ssa.Alloc); ok {
				if refs := al.Referrers(); refs != nil {
					for _, rr := range *refs {
						fa, ok := rr.(*ssa.FieldAddr)
						if !ok {
							continue
						}
						if fr := fa.Referrers(); fr != nil {
							for _, u := range *fr {
								s2, ok := u.(*ssa.Store)
								if !ok || s2.Addr != ssa.Value(fa) {
									continue
								}
								vp := stripIDs(v.Ctx.path(s2.Val))
								desc = append(desc, fieldName(fa.X.Type(), fa.Field)+"<-"+tail(vp, 60))
								if isString(s2.Val.Type()) {
									if vp == retName || (retNameVal != "" && vp == retNameVal) {
										nmOK = true
									}
								} else if strings.HasSuffix(vp, "cookie") && strings.HasPrefix(vp, "p:") {
									ckOK = true
								}
							}
						}
					}
				}
			}
		}
		a.R.ob("C11.2", "ring-write:value", "the slot records this record's cookie and the Name of the event being returned (the Rename event's name)", a.P.instrPos(st), ckOK && nmOK, strings.Join(desc, ", ")+"; returned event name is "+retName)
		// (3) index safety
		idxLoad, ok := stripConv(ia.Index).(*ssa.UnOp)
		if !ok || fieldOf(idxLoad.X) == nil {
			a.R.ob("C11.3", "ring-index", "the slot index is the ring's index field", a.P.instrPos(st), false, "index operand "+ia.Index.String())
			continue
		}
		idxF = fieldOf(idxLoad.X)
		c11Index(a, trFn, w, idxF, ringLen)
	}
	if nRing == 0 {
		a.R.fail("no write to the ring reachable from the translator (vacuous)")
	}
	// the translator's MOVED_FROM store is the only writer of the ring: any other store (clearing slots on Remove, say)
	// can forget a pending move before its second half arrives
	checked := map[ssa.Instruction]bool{}
	for _, v := range w.Visits {
		if st, ok := v.Instr.(*ssa.Store); ok {
			if ia, ok := st.Addr.(*ssa.IndexAddr); ok && (v.Ctx.fieldOfValue(ia.X) == ringF || fieldOf(ia.X) == ringF) {
				checked[st] = true
			}
		}
	}
	var others []string
	nWriters := 0
	for _, fn := range a.P.srcFuncs(a.P.Main) {
		for _, b := range fn.Blocks {
			for _, in := range b.Instrs {
				st, ok := in.(*ssa.Store)
				if !ok {
					continue
				}
				// address inside the ring: ring[i], ring[i].f, or the ring field as a whole
				addr := st.Addr
				hit := false
				for i := 0; i < 4 && !hit; i++ {
					switch x := addr.(type) {
					case *ssa.IndexAddr:
						if fieldOf(x.X) == ringF {
							hit = true
						}
						addr = x.X
					case *ssa.FieldAddr:
						if fieldOf(x) == ringF {
							hit = true
						}
						addr = x.X
					default:
						i = 4
					}
				}
				if !hit {
					continue
				}
				nWriters++
				if !checked[st] {
					others = append(others, a.P.instrPos(st)+" in "+shortFn(fn))
				}
			}
		}
	}
	a.R.ob("C11.2", "ring-write:only-writer", "the ring is written nowhere but by the translator's store for IN_MOVED_FROM (no other code can drop or alter a pending move)", "-", len(others) == 0 && nWriters >= 1,
		sprintf("%d store(s) into the ring in non-test code; outside the translator's store: %s", nWriters, fmtList(others)))
	// ring accesses under the lock
	for _, v := range w.Visits {
		if fa, ok := v.Instr.(*ssa.FieldAddr); ok && fieldOf(fa) == ringF {
			if len(v.Must) == 0 {
				a.R.ob("C11.2", "ring-access:locked@"+shortFn(fa.Parent()), "the ring is accessed under its mutex", a.P.instrPos(fa), false, "no lock held")
			}
		}
	}
	// (4)
	opStr, evStr := p.method(ro.Op, "String"), p.method(ro.Event, "String")
	if opStr != nil && evStr != nil {
		c16EventString(a, evStr, opStr)
		for i := range a.R.Obligations {
			if a.R.Obligations[i].Rule == "C16.3" {
				a.R.Obligations[i].Rule = "C11.4"
				a.R.Obligations[i].Key = "C11.4|Event.String"
			}
		}
	}
}

// remOfSelfPlusOne: v is (idx + 1) or idx for the index field idx (the operand of a `% len` wrap).
func remOfSelfPlusOne(v ssa.Value, idxF *types.Var) bool {
	v = stripConv(v)
	if b, ok := v.(*ssa.BinOp); ok && b.Op == token.ADD {
		if k, ok := constUint(b.Y); ok && k == 1 {
			v = stripConv(b.X)
		}
	}
	ld, ok := v.(*ssa.UnOp)
	return ok && ld.Op == token.MUL && fieldOf(ld.X) == idxF
}

func ringPathField(ringF *types.Var) string {
	st := ringF.Type().Underlying().(*types.Array).Elem().Underlying().(*types.Struct)
	for i := 0; i < st.NumFields(); i++ {
		if isString(st.Field(i).Type()) {
			return st.Field(i).Name()
		}
	}
	return "?"
}
func ringCookieField(ringF *types.Var) string {
	st := ringF.Type().Underlying().(*types.Array).Elem().Underlying().(*types.Struct)
	for i := 0; i < st.NumFields(); i++ {
		if !isString(st.Field(i).Type()) {
			return st.Field(i).Name()
		}
	}
	return "?"
}

func c11Index(a *An, fn *ssa.Function, w *Walker, idxF *types.Var, n int64) {
	inc, reset, mod := false, false, false
	other := false // any other assignment moves the write position (and can make a later move overwrite a pending one)
	var desc []string
	for _, v := range w.Visits {
		st, ok := v.Instr.(*ssa.Store)
		if !ok {
			continue
		}
		if fieldOf(st.Addr) != idxF {
			continue
		}
		val := stripConv(st.Val)
		switch x := val.(type) {
		case *ssa.Const:
			if k, ok := constUint(x); ok && k == 0 {
				// reset: guarded by a comparison of the index with a constant that agrees with n
				g, _ := v.Cond.everyConj(func(c Conj) bool {
					return c.has(func(l Lit) bool {
						if l.A.Kind != AkCmp || !strings.HasSuffix(stripIDs(l.A.Subj), "."+idxF.Name()) {
							return false
						}
						k := strings.TrimPrefix(l.A.K, "c:")
						switch {
						case l.A.Op == "<=" && l.Neg && k == sprintf("%d", n-1): // idx > n-1
							return true
						case l.A.Op == "<" && l.Neg && k == sprintf("%d", n): // idx >= n
							return true
						case l.A.Op == "==" && !l.Neg && k == sprintf("%d", n): // idx == n
							return true
						}
						return false
					})
				})
				if g {
					reset = true
				}
				desc = append(desc, "reset to 0 under "+stripIDs(v.Local.String()))
			} else {
				other = true
				desc = append(desc, "assigned constant "+x.String())
			}
		case *ssa.BinOp:
			// the field's own value plus one
			selfLoad := false
			if ld, isLd := stripConv(x.X).(*ssa.UnOp); isLd && ld.Op == token.MUL && fieldOf(ld.X) == idxF {
				selfLoad = true
			}
			if x.Op == token.ADD && selfLoad {
				if k, ok := constUint(x.Y); ok && k == 1 {
					inc = true
					desc = append(desc, "incremented by 1")
					continue
				}
			}
			if x.Op == token.REM {
				if k, ok := constUint(x.Y); ok && int64(k) == n && remOfSelfPlusOne(x.X, idxF) {
					mod = true
					desc = append(desc, sprintf("reduced modulo %d", k))
					continue
				}
			}
			other = true
			desc = append(desc, "assigned "+x.String())
		default:
			other = true
			desc = append(desc, "assigned "+stripIDs(v.Ctx.path(val)))
		}
	}
	ok := ((inc && reset) || mod) && !other
	// stores to the index field outside the translator's walk
	checkedSt := map[ssa.Instruction]bool{}
	for _, v := range w.Visits {
		if st, isSt := v.Instr.(*ssa.Store); isSt && fieldOf(st.Addr) == idxF {
			checkedSt[st] = true
		}
	}
	for _, f2 := range a.P.srcFuncs(a.P.Main) {
		for _, b := range f2.Blocks {
			for _, in := range b.Instrs {
				if st, isSt := in.(*ssa.Store); isSt && fieldOf(st.Addr) == idxF && !checkedSt[st] {
					ok = false
					desc = append(desc, "also written at "+a.P.instrPos(st)+" in "+shortFn(f2))
				}
			}
		}
	}
	a.R.ob("C11.3", "ring-index:bounded", sprintf("the ring index only advances by one and wraps to 0 at the ring length %d (wrap test agrees with the array type); nothing else moves the write position", n), a.P.pos(fn.Pos()), ok, strings.Join(desc, "; "))
}

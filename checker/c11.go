package main

import (
	"go/token"
	"go/types"
	"strings"

	"golang.org/x/tools/go/ssa"
)

func init() {
	register(&property{
		Meta: propMeta{
			ID:    "C11",
			Title: "Rename correlation: Create carries the old name of the same move, or none",
			Explanation: "Shape and origin rules over the SSA of the inotify translator. Decided: " +
				"(1) the event's old-name field has exactly one store in the backend; it executes only when the cookie is non-zero and the mask has IN_MOVED_TO; the stored value is, edge by edge, either the empty string or the path of a ring slot on an edge conditioned on slot.cookie == this record's cookie - never a slot found by other means, never under a plain IN_CREATE; " +
				"(2) a ring slot is written only when the cookie is non-zero and the mask has IN_MOVED_FROM, with this record's cookie and the Name of the very event being returned (so the old name equals the Rename event's name); ring and index are accessed under the ring's mutex; " +
				"(3) index safety: the slot index is the index field, which after every increment is reset to zero by a test whose constant agrees with the array length taken from the type (forms > N-1, >= N, == N, % N), so the index stays below the ring length for histories of any length; " +
				"(4) Event.String renders the old name when present (C16.3). " +
				"Not decided: interleavings of the halves of different moves; ring capacity versus history length ('or none' is permitted).",
			Rule:        "one obligation per store to the old-name field, per phi edge of the stored value, per ring write, per index update",
			Assumptions: []string{"go/types + go/ssa", "array length read from the field's type"},
			MinObl:      7,
		},
		Configs: tiered(linuxQuick, linuxAll),
		Run:     runC11,
	})
}

// phiEdgeCond: condition (local to ctx.Fn) under which control enters phi's block through edge i.
func phiEdgeCond(c *Ctx, phi *ssa.Phi, i int) DNF {
	conds, err := c.conds()
	if err != nil {
		return dnfTrue()
	}
	pred := phi.Block().Preds[i]
	d, ok := conds[pred]
	if !ok {
		return dnfFalse()
	}
	for si, s := range pred.Succs {
		if s == phi.Block() {
			for _, l := range c.edgeLits(pred, si) {
				if v, known := c.constLit(l); known {
					if !v {
						return dnfFalse()
					}
					continue
				}
				d = d.andLit(l)
			}
			break
		}
	}
	return d
}

func runC11(p *Program, e *Engine, r *Result, tier string) {
	a := newAn(p, e, r, true)
	if a == nil {
		return
	}
	ro := a.Ro
	// the old-name field: Event's unexported string field
	var oldF *types.Var
	est := ro.Event.Underlying().(*types.Struct)
	for i := 0; i < est.NumFields(); i++ {
		f := est.Field(i)
		if isString(f.Type()) && !f.Exported() {
			oldF = f
		}
	}
	if oldF == nil {
		a.R.fail("anchor unresolved: Event's unexported old-name field")
		return
	}
	// the ring: array-typed field of the backend whose element has an integer and a string field
	var ringF, idxF *types.Var
	var ringLen int64
	bst := ro.Backend.Underlying().(*types.Struct)
	for i := 0; i < bst.NumFields(); i++ {
		f := bst.Field(i)
		if arr, ok := f.Type().Underlying().(*types.Array); ok {
			if st, ok := arr.Elem().Underlying().(*types.Struct); ok && st.NumFields() == 2 {
				ringF, ringLen = f, arr.Len()
			}
		}
	}
	if ringF == nil {
		a.R.fail("anchor unresolved: rename-cookie ring (array field of the backend)")
		return
	}
	a.R.fact("old-name field Event.%s; ring %s of length %d", oldF.Name(), fieldStr(ro, ringF), ringLen)
	// (1) stores to the old-name field
	type site struct {
		fn *ssa.Function
		st *ssa.Store
	}
	var sites []site
	for _, fn := range a.P.srcFuncs(a.P.Main) {
		for _, b := range fn.Blocks {
			for _, in := range b.Instrs {
				if st, ok := in.(*ssa.Store); ok {
					if fa, ok := st.Addr.(*ssa.FieldAddr); ok && fieldOf(fa) == oldF {
						sites = append(sites, site{fn, st})
					}
				}
			}
		}
	}
	a.R.ob("C11.1", "old-name:single-writer", "the old-name field of an event has exactly one writer in the backend", "-", len(sites) == 1, sprintf("%d store site(s)", len(sites)))
	movedTo, _ := unixConst(a, "IN_MOVED_TO")
	movedFrom, _ := unixConst(a, "IN_MOVED_FROM")
	hasBit := func(k uint64) func(Lit) bool {
		return func(l Lit) bool { return l.A.Kind == AkBit && !l.Neg && l.A.Bits == k && strings.HasSuffix(l.A.Subj, "mask") }
	}
	cookieNZ := func(l Lit) bool {
		return l.A.Kind == AkCmp && l.Neg && l.A.Op == "==" && l.A.K == "c:0" && strings.HasSuffix(l.A.Subj, "cookie") && !strings.Contains(l.A.Subj, "[")
	}
	for _, s := range sites {
		w := a.walk(s.fn)
		vi := indexVisits(w)
		var root *Ctx
		if len(w.Visits) > 0 {
			root = w.Visits[0].Ctx.root()
		}
		v := vi[root][s.st]
		if v == nil {
			continue
		}
		g, bad := v.Cond.everyConj(func(c Conj) bool { return c.has(cookieNZ) && c.has(hasBit(movedTo)) })
		wit := "store reached under " + stripIDs(v.Cond.String())
		if !g {
			wit = "the old name can be set under " + stripIDs(bad.String())
		}
		a.R.ob("C11.1", "old-name:guard", "the old name is set only for a record with a non-zero cookie and IN_MOVED_TO", a.P.instrPos(s.st), g, wit)
		// value edges
		edges := []ssa.Value{s.st.Val}
		var phi *ssa.Phi
		if ph, ok := s.st.Val.(*ssa.Phi); ok {
			phi = ph
			edges = ph.Edges
		}
		for i, ev := range edges {
			if k, ok := ev.(*ssa.Const); ok && k.Value != nil && k.Value.ExactString() == `""` {
				a.R.ob("C11.1", "old-name:edge(empty)", "without a matching slot the old name stays empty", a.P.instrPos(s.st), true, "constant \"\"")
				continue
			}
			p := stripIDs(root.path(ev))
			fromRing := strings.HasPrefix(p, "recv."+ringF.Name()+"[") && !strings.HasPrefix(p, "recv."+ringF.Name()+"[:") && strings.HasSuffix(p, "]."+ringPathField(ringF))
			matched := false
			cond := dnfTrue()
			if phi != nil {
				cond = phiEdgeCond(root, phi, i)
			} else {
				cond = v.Local
			}
			slot := strings.TrimSuffix(p, "."+ringPathField(ringF))
			matched, _ = cond.everyConj(func(c Conj) bool {
				return c.has(func(l Lit) bool {
					if l.A.Kind != AkCmp || l.Neg || l.A.Op != "==" {
						return false
					}
					s1, s2 := stripIDs(l.A.Subj), stripIDs(l.A.K)
					want := slot + "." + ringCookieField(ringF)
					return (s1 == want && strings.HasSuffix(s2, "cookie") && !strings.Contains(s2, "[")) || (s2 == want && strings.HasSuffix(s1, "cookie") && !strings.Contains(s1, "["))
				})
			})
			a.R.ob("C11.1", "old-name:edge(slot)", "a non-empty old name is the path of a ring slot whose cookie equals this record's cookie", a.P.instrPos(s.st), fromRing && matched,
				sprintf("value %s on an edge conditioned on %s", tail(p, 90), stripIDs(cond.String())))
			// the search covers the whole ring: the loop bound is the ring length from the type
			whole, _ := cond.everyConj(func(c Conj) bool {
				return c.has(func(l Lit) bool {
					return l.A.Kind == AkCmp && !l.Neg && l.A.Op == "<" && l.A.K == sprintf("c:%d", ringLen)
				})
			})
			a.R.ob("C11.1", "old-name:whole-ring", "the cookie is looked up in every slot of the ring (a pending move is found wherever the index has moved to)", a.P.instrPos(s.st), whole && fromRing,
				sprintf("loop bound in the edge condition: expected index < %d", ringLen))
		}
	}
	// (2) ring writes
	nRing := 0
	for _, fn := range a.P.srcFuncs(a.P.Main) {
		w := a.walk(fn)
		if fn.Signature.Recv() == nil {
			continue
		}
		for _, v := range w.Visits {
			if v.Ctx.Parent != nil {
				continue
			}
			st, ok := v.Instr.(*ssa.Store)
			if !ok {
				continue
			}
			ia, ok := st.Addr.(*ssa.IndexAddr)
			if !ok || fieldOf(ia.X) != ringF {
				continue
			}
			nRing++
			g, bad := v.Cond.everyConj(func(c Conj) bool { return c.has(cookieNZ) && c.has(hasBit(movedFrom)) })
			wit := "slot written under " + stripIDs(v.Cond.String())
			if !g {
				wit = "a slot can be written under " + stripIDs(bad.String())
			}
			a.R.ob("C11.2", "ring-write:guard", "a ring slot is written only for a record with a non-zero cookie and IN_MOVED_FROM", a.P.instrPos(st), g, wit)
			locked := len(v.Must) > 0
			a.R.ob("C11.2", "ring-write:locked", "the ring is written under its mutex", a.P.instrPos(st), locked, "must-lockset "+LockSet(v.Must).String())
			// stored struct: cookie field <- this record's cookie; path field <- Name of the returned event
			ckOK, nmOK := false, false
			var desc []string
			if ld, ok := st.Val.(*ssa.UnOp); ok && ld.Op == token.MUL {
				if al, ok := ld.X.(*ssa.Alloc); ok {
					if refs := al.Referrers(); refs != nil {
						for _, rr := range *refs {
							fa, ok := rr.(*ssa.FieldAddr)
							if !ok {
								continue
							}
							if fr := fa.Referrers(); fr != nil {
								for _, u := range *fr {
									s2, ok := u.(*ssa.Store)
									if !ok || s2.Addr != ssa.Value(fa) {
										continue
									}
									vp := stripIDs(v.Ctx.path(s2.Val))
									desc = append(desc, fieldName(fa.X.Type(), fa.Field)+"<-"+tail(vp, 60))
									if isString(s2.Val.Type()) {
										// Name of the event returned by this function
										if ret := singleReturn(fn); ret != nil && len(ret.Results) >= 1 {
											rp := stripIDs(v.Ctx.path(ret.Results[0]))
											if vp == rp+".Name" {
												nmOK = true
											}
										}
									} else if strings.HasSuffix(vp, "cookie") && strings.HasPrefix(vp, "p:") {
										ckOK = true
									}
								}
							}
						}
					}
				}
			}
			a.R.ob("C11.2", "ring-write:value", "the slot records this record's cookie and the Name of the event being returned (the Rename event's name)", a.P.instrPos(st), ckOK && nmOK, strings.Join(desc, ", "))
			// (3) index safety
			idxLoad, ok := stripConv(ia.Index).(*ssa.UnOp)
			if !ok || fieldOf(idxLoad.X) == nil {
				a.R.ob("C11.3", "ring-index", "the slot index is the ring's index field", a.P.instrPos(st), false, "index operand "+ia.Index.String())
				continue
			}
			idxF = fieldOf(idxLoad.X)
			c11Index(a, fn, w, idxF, ringLen)
		}
	}
	if nRing == 0 {
		a.R.fail("no write to the ring found (vacuous)")
	}
	// ring reads under the lock
	for _, fn := range a.P.srcFuncs(a.P.Main) {
		if fn.Signature.Recv() == nil {
			continue
		}
		w := a.walk(fn)
		for _, v := range w.Visits {
			if fa, ok := v.Instr.(*ssa.FieldAddr); ok && v.Ctx.Parent == nil && fieldOf(fa) == ringF {
				if len(v.Must) == 0 {
					a.R.ob("C11.2", "ring-access:locked@"+shortFn(fn), "the ring is accessed under its mutex", a.P.instrPos(fa), false, "no lock held")
				}
			}
		}
	}
	// (4)
	opStr, evStr := p.method(ro.Op, "String"), p.method(ro.Event, "String")
	if opStr != nil && evStr != nil {
		c16EventString(a, evStr, opStr)
		for i := range a.R.Obligations {
			if a.R.Obligations[i].Rule == "C16.3" {
				a.R.Obligations[i].Rule = "C11.4"
				a.R.Obligations[i].Key = "C11.4|Event.String"
			}
		}
	}
}

func ringPathField(ringF *types.Var) string {
	st := ringF.Type().Underlying().(*types.Array).Elem().Underlying().(*types.Struct)
	for i := 0; i < st.NumFields(); i++ {
		if isString(st.Field(i).Type()) {
			return st.Field(i).Name()
		}
	}
	return "?"
}
func ringCookieField(ringF *types.Var) string {
	st := ringF.Type().Underlying().(*types.Array).Elem().Underlying().(*types.Struct)
	for i := 0; i < st.NumFields(); i++ {
		if !isString(st.Field(i).Type()) {
			return st.Field(i).Name()
		}
	}
	return "?"
}

func c11Index(a *An, fn *ssa.Function, w *Walker, idxF *types.Var, n int64) {
	inc, reset, mod := false, false, false
	var desc []string
	for _, v := range w.Visits {
		if v.Ctx.Parent != nil {
			continue
		}
		st, ok := v.Instr.(*ssa.Store)
		if !ok {
			continue
		}
		if fieldOf(st.Addr) != idxF {
			continue
		}
		val := stripConv(st.Val)
		switch x := val.(type) {
		case *ssa.Const:
			if k, ok := constUint(x); ok && k == 0 {
				// reset: guarded by a comparison of the index with a constant that agrees with n
				g, _ := v.Cond.everyConj(func(c Conj) bool {
					return c.has(func(l Lit) bool {
						if l.A.Kind != AkCmp || !strings.HasSuffix(stripIDs(l.A.Subj), "."+idxF.Name()) {
							return false
						}
						k := strings.TrimPrefix(l.A.K, "c:")
						switch {
						case l.A.Op == "<=" && l.Neg && k == sprintf("%d", n-1): // idx > n-1
							return true
						case l.A.Op == "<" && l.Neg && k == sprintf("%d", n): // idx >= n
							return true
						case l.A.Op == "==" && !l.Neg && k == sprintf("%d", n): // idx == n
							return true
						}
						return false
					})
				})
				if g {
					reset = true
				}
				desc = append(desc, "reset to 0 under "+stripIDs(v.Local.String()))
			} else {
				desc = append(desc, "assigned constant "+x.String())
			}
		case *ssa.BinOp:
			if x.Op == token.ADD {
				if k, ok := constUint(x.Y); ok && k == 1 {
					inc = true
					desc = append(desc, "incremented by 1")
					continue
				}
			}
			if x.Op == token.REM {
				if k, ok := constUint(x.Y); ok && int64(k) == n {
					mod = true
					desc = append(desc, sprintf("reduced modulo %d", k))
					continue
				}
			}
			desc = append(desc, "assigned "+x.String())
		default:
			desc = append(desc, "assigned "+val.String())
		}
	}
	ok := (inc && reset) || mod
	a.R.ob("C11.3", "ring-index:bounded", sprintf("the ring index stays below the ring length %d for histories of any length (wrap test agrees with the array type)", n), a.P.pos(fn.Pos()), ok, strings.Join(desc, "; "))
}

package main

import (
	"flag"
	"fmt"
	"os"
	"strings"

	"golang.org/x/tools/go/ssa"
)

func cmdDump(args []string) int {
	fs := flag.NewFlagSet("dump", flag.ExitOnError)
	cfgS := fs.String("config", "linux/amd64", "GOOS/GOARCH")
	repo := fs.String("repo", "/repo", "repository")
	fnName := fs.String("fn", "", "function name (substring of ssa name)")
	all := fs.Bool("all", false, "print every instruction")
	fold := fs.Bool("fold", true, "production folding")
	roles := fs.Bool("roles", false, "print discovered roles")
	fs.Parse(args)
	cfg, _ := parseConfig(*cfgS)
	p, err := loadProgram(*repo, cfg)
	if err != nil {
		fmt.Fprintln(os.Stderr, err)
		return 1
	}
	e := newEngine(p)
	if *fold {
		e.computeFold()
		for _, f := range e.FoldFacts {
			fmt.Println("fold:", f)
		}
	}
	if *roles {
		ro, err := discoverRoles(p, e)
		if err != nil {
			fmt.Println("roles error:", err)
		}
		if ro != nil {
			ro.print(os.Stdout)
		}
	}
	if *fnName == "" {
		return 0
	}
	for _, f := range p.srcFuncs(p.Main) {
		if !strings.Contains(f.String(), *fnName) {
			continue
		}
		fmt.Printf("=== %s\n", f)
		w := e.Walk(f, WalkOpts{})
		for _, v := range w.Visits {
			if !*all {
				switch v.Instr.(type) {
				case *ssa.Call, *ssa.Store, *ssa.MapUpdate, *ssa.Return, *ssa.Send, *ssa.Select, *ssa.Go, *ssa.Defer, *ssa.If:
				default:
					continue
				}
			}
			val := ""
			if vv, ok := v.Instr.(ssa.Value); ok {
				val = "  = " + v.Ctx.path(vv)
			}
			fmt.Printf("%-28s d%d %-50s%s\n      must=%s cond=%s\n", p.instrPos(v.Instr), v.Ctx.Depth, v.Instr.String(), val, v.Must, v.Cond)
		}
		for _, n := range w.Notes {
			fmt.Println("note:", n)
		}
		for _, n := range w.Errs {
			fmt.Println("ERR:", n)
		}
	}
	return 0
}

package main

// Loading: go/packages (type-checked syntax for the whole dependency closure) ->
// go/ssa -> call graph (VTA seeded with CHA).  One configuration (GOOS/GOARCH)
// per process; thorough runs fork one process per configuration.

import (
	_ "embed"
	"fmt"
	"go/token"
	"go/types"
	"os"
	"path/filepath"
	"sort"
	"strings"

	"golang.org/x/tools/go/callgraph"
	"golang.org/x/tools/go/callgraph/cha"
	"golang.org/x/tools/go/callgraph/vta"
	"golang.org/x/tools/go/packages"
	"golang.org/x/tools/go/ssa"
	"golang.org/x/tools/go/ssa/ssautil"
)

//go:embed ctl/ctl_linux.go.txt
var ctlLinux string

//go:embed ctl/ctl_kqueue.go.txt
var ctlKqueue string

func ctlFor(goos string) string {
	switch goos {
	case "linux":
		return ctlLinux
	case "freebsd", "openbsd", "netbsd", "dragonfly", "darwin":
		return ctlKqueue
	}
	return ""
}

const ctlFileName = "zz_verif_ctl_overlay.go"

type Config struct{ GOOS, GOARCH string }

func (c Config) String() string { return c.GOOS + "/" + c.GOARCH }

func parseConfig(s string) (Config, error) {
	i := strings.IndexByte(s, '/')
	if i < 0 {
		return Config{}, fmt.Errorf("bad configuration %q", s)
	}
	return Config{s[:i], s[i+1:]}, nil
}

// Program is everything the rules look at for one configuration.
type Program struct {
	Cfg    Config
	Repo   string
	Fset   *token.FileSet
	Pkgs   []*packages.Package // module packages (roots of the load)
	Prog   *ssa.Program
	Main   *ssa.Package // the fsnotify package
	MainTy *types.Package
	Ztest  *ssa.Package // internal/ztest (may be nil if not loaded)
	All    map[*ssa.Function]bool
	cgVTA  *callgraph.Graph
	cgCHA  *callgraph.Graph
	Sizes  types.Sizes

	nFuncsModule int
	// positive controls (in-memory overlay file)
	Ctl     bool   // overlay loaded and type-checked
	CtlNote string // why controls are unavailable
	ctlMode bool   // srcFuncs returns only control functions
}

// isCtl: function belongs to the positive-control overlay.
func isCtl(f *ssa.Function) bool {
	for x := f; x != nil; x = x.Parent() {
		if strings.HasPrefix(x.Name(), "zzCtl") {
			return true
		}
	}
	return false
}

func loadProgram(repo string, cfg Config) (*Program, error) {
	if ctlFor(cfg.GOOS) != "" && os.Getenv("VERIF_NO_CONTROLS") == "" {
		p, err := loadProgramOverlay(repo, cfg, map[string][]byte{filepath.Join(repo, ctlFileName): []byte(ctlFor(cfg.GOOS))})
		if err == nil {
			p.Ctl = true
			return p, nil
		}
		if !strings.Contains(err.Error(), ctlFileName) {
			return nil, err
		}
		// the control file does not type-check against this tree (an internal name it uses was changed):
		// analyse without controls and say so.
		p, err2 := loadProgramOverlay(repo, cfg, nil)
		if err2 != nil {
			return nil, err2
		}
		p.CtlNote = "positive controls unavailable on this tree: " + firstLine(err.Error())
		return p, nil
	}
	p, err := loadProgramOverlay(repo, cfg, nil)
	if p != nil {
		p.CtlNote = "no positive-control overlay for this backend"
	}
	return p, err
}

func firstLine(s string) string {
	if i := strings.IndexByte(s, '\n'); i >= 0 {
		s = s[:i]
	}
	if len(s) > 300 {
		s = s[:300]
	}
	return s
}

func loadProgramOverlay(repo string, cfg Config, overlay map[string][]byte) (*Program, error) {
	env := []string{}
	for _, kv := range os.Environ() {
		if strings.HasPrefix(kv, "GOWORK=") || strings.HasPrefix(kv, "GOOS=") || strings.HasPrefix(kv, "GOARCH=") ||
			strings.HasPrefix(kv, "GOFLAGS=") || strings.HasPrefix(kv, "CGO_ENABLED=") {
			continue
		}
		env = append(env, kv)
	}
	env = append(env, "GOOS="+cfg.GOOS, "GOARCH="+cfg.GOARCH, "CGO_ENABLED=0", "GOFLAGS=-mod=mod",
		"GOPROXY=off", "GOSUMDB=off", "GOTOOLCHAIN=local", "GOWORK=off")
	pc := &packages.Config{
		Mode:    packages.LoadAllSyntax,
		Dir:     repo,
		Env:     env,
		Tests:   false,
		Overlay: overlay,
	}
	pkgs, err := packages.Load(pc, "./...")
	if err != nil {
		return nil, fmt.Errorf("load %s: %v", cfg, err)
	}
	if len(pkgs) == 0 {
		return nil, fmt.Errorf("load %s: zero packages", cfg)
	}
	var errs []string
	packages.Visit(pkgs, nil, func(p *packages.Package) {
		for _, e := range p.Errors {
			errs = append(errs, e.Error())
		}
	})
	if len(errs) > 0 {
		sort.Strings(errs)
		if len(errs) > 10 {
			errs = errs[:10]
		}
		return nil, fmt.Errorf("load %s: type/parse errors: %s", cfg, strings.Join(errs, "; "))
	}
	prog, _ := ssautil.AllPackages(pkgs, ssa.InstantiateGenerics)
	prog.Build()

	p := &Program{Cfg: cfg, Repo: repo, Fset: prog.Fset, Pkgs: pkgs, Prog: prog}
	for _, pk := range pkgs {
		sp := prog.Package(pk.Types)
		if sp == nil {
			continue
		}
		if pk.Types.Scope().Lookup("NewWatcher") != nil && pk.Types.Scope().Lookup("Watcher") != nil {
			p.Main = sp
			p.MainTy = pk.Types
			mainTypes = pk.Types
			p.Sizes = pk.TypesSizes
		}
		if strings.HasSuffix(pk.PkgPath, "/internal/ztest") {
			p.Ztest = sp
		}
	}
	if p.Main == nil {
		return nil, fmt.Errorf("load %s: package with Watcher/NewWatcher not found among %d packages", cfg, len(pkgs))
	}
	p.All = ssautil.AllFunctions(prog)
	for f := range p.All {
		if p.inModule(f) && !isCtl(f) {
			p.nFuncsModule++
		}
	}
	return p, nil
}

func (p *Program) VTA() *callgraph.Graph {
	if p.cgVTA == nil {
		p.cgVTA = vta.CallGraph(p.All, p.CHA())
	}
	return p.cgVTA
}

func (p *Program) CHA() *callgraph.Graph {
	if p.cgCHA == nil {
		p.cgCHA = cha.CallGraph(p.Prog)
	}
	return p.cgCHA
}

// inModule reports whether f is a source function of one of the module's packages.
func (p *Program) inModule(f *ssa.Function) bool {
	pk := fnPkg(f)
	if pk == nil {
		return false
	}
	for _, mp := range p.Pkgs {
		if mp.Types == pk.Pkg {
			return true
		}
	}
	return false
}

func (p *Program) inMain(f *ssa.Function) bool {
	pk := fnPkg(f)
	return pk != nil && pk == p.Main
}

func fnPkg(f *ssa.Function) *ssa.Package {
	for f != nil {
		if f.Pkg != nil {
			return f.Pkg
		}
		if f.Parent() != nil {
			f = f.Parent()
			continue
		}
		if o := f.Origin(); o != nil && o != f {
			f = o
			continue
		}
		return nil
	}
	return nil
}

// pos renders a position relative to the repository root.
func (p *Program) pos(ps token.Pos) string {
	if !ps.IsValid() {
		return "-"
	}
	po := p.Fset.Position(ps)
	if rel, err := filepath.Rel(p.Repo, po.Filename); err == nil && !strings.HasPrefix(rel, "..") {
		return fmt.Sprintf("%s:%d", rel, po.Line)
	}
	return fmt.Sprintf("%s:%d", filepath.Base(po.Filename), po.Line)
}

func (p *Program) instrPos(in ssa.Instruction) string {
	ps := in.Pos()
	if !ps.IsValid() {
		// fall back to any positioned instruction in the block, then the function
		if b := in.Block(); b != nil {
			for _, x := range b.Instrs {
				if x.Pos().IsValid() {
					ps = x.Pos()
					break
				}
			}
		}
		if !ps.IsValid() && in.Parent() != nil {
			ps = in.Parent().Pos()
		}
	}
	return p.pos(ps)
}

// files compiled into the main package for this configuration (base names)
func (p *Program) mainFiles() []string {
	var out []string
	for _, pk := range p.Pkgs {
		if pk.Types == p.MainTy {
			for _, f := range pk.GoFiles {
				if filepath.Base(f) != ctlFileName {
					out = append(out, filepath.Base(f))
				}
			}
		}
	}
	sort.Strings(out)
	return out
}

// srcFuncs lists the module's functions of the main package (incl. anonymous) in a stable order.
func (p *Program) srcFuncs(pkg *ssa.Package) []*ssa.Function {
	var out []*ssa.Function
	for f := range p.All {
		if fnPkg(f) == pkg && f.Blocks != nil && f.Synthetic == "" && isCtl(f) == p.ctlMode {
			out = append(out, f)
		}
	}
	sort.Slice(out, func(i, j int) bool {
		if out[i].Pos() != out[j].Pos() {
			return out[i].Pos() < out[j].Pos()
		}
		return out[i].String() < out[j].String()
	})
	return out
}

func (p *Program) funcByName(pkg *ssa.Package, name string) *ssa.Function {
	if f := pkg.Func(name); f != nil {
		return f
	}
	return nil
}

// method returns the ssa function for method name on named type T (pointer or value receiver).
func (p *Program) method(T types.Type, name string) *ssa.Function {
	for _, t := range []types.Type{T, types.NewPointer(T)} {
		ms := p.Prog.MethodSets.MethodSet(t)
		for i := 0; i < ms.Len(); i++ {
			if ms.At(i).Obj().Name() == name {
				return p.Prog.MethodValue(ms.At(i))
			}
		}
	}
	return nil
}

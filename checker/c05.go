package main

import (
	"go/types"
	"sort"
	"strings"

	"golang.org/x/tools/go/ssa"
)

func init() {
	register(&property{
		Meta: propMeta{
			ID:    "C05",
			Title: "Control operations never block on event consumption; Close always returns",
			Explanation: "Static lockset + blocking-operation analysis over the type-checked SSA of the inotify backend and shared.go, for every calling context of every API method and of the reader goroutine. " +
				"Decided (necessary conditions, all paths): R1 no channel send/receive, blocking select, WaitGroup/Cond wait, sleep or kernel wait is executed while any bookkeeping mutex may be held; " +
				"R2 every blocking channel operation reachable from the API or the reader is a select with a receive on the done channel, or the wait for the reader in Close, which is preceded on every path by close(done) and by closing the inotify file; " +
				"R3 close(done) is guarded by !isClosed() under the mutex and Close returns without any blocking operation when the watcher was already closed; " +
				"R4 the lock-order graph over all roots is acyclic and no mutex is re-acquired while held. " +
				"Not decided: that the syscalls made under the lock return in bounded time; goroutine scheduling; that the kernel wakes the blocked read (assumption A1).",
			Rule: "obligations are enumerated per blocking operation site, per lock acquisition site, per close(done) site and per Close path; distinct = distinct rule|site keys; a site is non-trivial when it is reachable from a root in production configuration",
			Assumptions: []string{
				"go/types, go/ssa (x/tools v0.29.0) model the program faithfully",
				"callbacks passed to non-go calls run synchronously in the caller's context",
				"A1: closing a non-blocking *os.File wakes a blocked Read with os.ErrClosed (Go runtime poller)",
				"production folding: package variables with a single constant initialiser and no other writer are constants (re-verified on every run)",
			},
			MinObl: 10,
		},
		// thorough also analyses the kqueue and FEN backends, which embed the same shared struct (send functions, done
		// protocol, close()); the Windows backend uses a different request/reply protocol and is not covered.
		Configs: tiered(concat(linuxQuick, []Config{{"freebsd", "amd64"}}), concat(linuxAll, kqueueAll, fenAll)),
		Run:     runC05,
	})
}

func runC05(p *Program, e *Engine, r *Result, tier string) {
	a := newAn(p, e, r, true)
	if a == nil {
		return
	}
	ro := a.Ro
	if !a.require(ro.Done != nil, "done channel (a chan struct{} received from in the send functions' select)") ||
		!a.require(len(ro.CloseFns) == 1, "exactly one function closing the done channel, found %v", fnNames(ro.CloseFns)) ||
		!a.require(len(ro.IsClosed) >= 1, "isClosed predicate") ||
		!a.require(len(ro.Readers) >= 1, "reader goroutine") ||
		!a.require(len(ro.Locks) >= 1, "bookkeeping mutex") {
		return
	}
	c05R1(a, "C05.R1")
	c05R2(a, "C05.R2", a.roots())
	c05R5(a)
	c05R3(a)
	c05R4(a, "C05.R4")
}

type siteAgg struct {
	fn      string
	desc    string
	pos     string
	ok      bool
	witness []string
	n       int
}

// R1: no blocking operation while a lock may be held.
func c05R1(a *An, rule string) {
	agg := map[string]*siteAgg{}
	var order []string
	for _, root := range a.roots() {
		w := a.walk(root)
		for _, v := range w.Visits {
			desc, blocking := blockingOp(v.Ctx, v.Instr)
			if !blocking {
				if cal := visitCallee(v); cal != nil && kernelWait(cal) {
					if _, isCall := v.Instr.(*ssa.Call); isCall {
						desc, blocking = "kernel wait "+fullName(cal), true
					}
				}
			}
			if !blocking {
				continue
			}
			fn := shortFn(v.Instr.Parent())
			// key: function + operation shape, context-independent
			shape := blockShape(v)
			key := fn + ":" + shape
			s := agg[key]
			if s == nil {
				s = &siteAgg{fn: fn, desc: desc, pos: a.P.instrPos(v.Instr), ok: true}
				agg[key] = s
				order = append(order, key)
			}
			s.n++
			if len(v.May) > 0 {
				s.ok = false
				s.witness = append(s.witness, sprintf("reached via %s with lock(s) %s held: %s", v.Ctx.chain(), LockSet(v.May), desc))
			}
		}
	}
	sort.Strings(order)
	for _, k := range order {
		s := agg[k]
		wit := sprintf("%d calling context(s), lockset empty in all of them", s.n)
		if !s.ok {
			wit = strings.Join(uniq(s.witness), "; ")
		}
		a.R.ob(rule, k, "blocking operation ("+s.desc+") must not execute while a bookkeeping mutex is held", s.pos, s.ok, wit)
	}
}

// blockShape: context-independent description of a blocking op (types of the channels, direction).
func blockShape(v *Visit) string {
	switch x := v.Instr.(type) {
	case *ssa.Send:
		return "send(" + chanShape(v.Ctx, x.Chan) + ")"
	case *ssa.UnOp:
		return "recv(" + chanShape(v.Ctx, x.X) + ")"
	case *ssa.Select:
		var ss []string
		for _, s := range x.States {
			d := "recv "
			if s.Dir == types.SendOnly {
				d = "send "
			}
			ss = append(ss, d+chanShape(v.Ctx, s.Chan))
		}
		return "select{" + strings.Join(ss, ";") + "}"
	case *ssa.Call:
		if cal := v.Ctx.calleeOf(&x.Call); cal != nil {
			return "call " + fullName(cal)
		}
	}
	return "op"
}

func chanShape(c *Ctx, ch ssa.Value) string {
	if f := fieldOf(ch); f != nil {
		return "field " + f.Name()
	}
	return types.TypeString(ch.Type(), func(p *types.Package) string { return p.Name() })
}

// R2: blocking channel operations are interruptible by Close.
func c05R2(a *An, rule string, roots []*ssa.Function) {
	ro := a.Ro
	// channels closed by the reader's deferred function on every exit ("reader exit channels")
	exitChans := map[*types.Var]bool{}
	for _, rd := range ro.Readers {
		w := a.walk(rd)
		for _, v := range w.Visits {
			if !v.InDefer {
				continue
			}
			if args, ok := isBuiltinCall(v.Instr, "close"); ok && len(args) == 1 {
				if f := v.Ctx.fieldOfValue(args[0]); f != nil && isChanOf(f.Type(), isEmptyStruct) {
					exitChans[f] = true
				}
			}
		}
	}
	seen := map[string]bool{}
	for _, root := range roots {
		w := a.walk(root)
		for _, v := range w.Visits {
			fn := shortFn(v.Instr.Parent())
			switch x := v.Instr.(type) {
			case *ssa.Select:
				if !x.Blocking {
					continue
				}
				key := fn + ":" + blockShape(v)
				if seen[key] {
					continue
				}
				seen[key] = true
				hasDone := false
				for _, s := range x.States {
					if s.Dir == types.RecvOnly && v.Ctx.fieldOfValue(s.Chan) == ro.Done {
						hasDone = true
					}
				}
				a.R.ob(rule, key, "a blocking select must have a receive on the done channel so that Close releases it", a.P.instrPos(x), hasDone,
					sprintf("states: %s", blockShape(v)))
			case *ssa.Send:
				key := fn + ":" + blockShape(v)
				if seen[key] {
					continue
				}
				seen[key] = true
				a.R.ob(rule, key, "a bare channel send blocks until a consumer arrives and cannot be released by Close", a.P.instrPos(x), false, "send outside a select with done")
			case *ssa.UnOp:
				if _, blocking := blockingOp(v.Ctx, x); !blocking {
					continue
				}
				key := fn + ":" + blockShape(v)
				if seen[key] {
					continue
				}
				seen[key] = true
				f := v.Ctx.fieldOfValue(x.X)
				if f == nil || !exitChans[f] {
					a.R.ob(rule, key, "a bare channel receive must wait for the reader-exit channel only", a.P.instrPos(x), false,
						sprintf("receives from %s, which the reader does not close on exit", v.Ctx.path(x.X)))
					continue
				}
				// must be preceded (every path) by close(done) and by waking the reader
				closedDone, woke := false, false
				var how []string
				for _, u := range w.Visits {
					if u.Seq >= v.Seq {
						break
					}
					cal := visitCallee(u)
					if cal == nil {
						continue
					}
					if _, isCall := u.Instr.(*ssa.Call); !isCall {
						continue
					}
					if !precedesAlways(u, v) {
						continue
					}
					if containsFn(ro.CloseFns, cal) {
						closedDone = true
						how = append(how, "close(done) via "+shortFn(cal))
					}
					if fullName(cal) == "(*os.File).Close" || fullName(cal) == "golang.org/x/sys/unix.Close" {
						woke = true
						how = append(how, "reader woken by "+fullName(cal)+"("+stripIDs(u.Ctx.path(callCommon(u.Instr).Args[0]))+")")
					}
				}
				a.R.ob(rule, key, "the wait for the reader in Close must come after close(done) and after closing the notification file on every path",
					a.P.instrPos(x), closedDone && woke, sprintf("dominating calls: %s", fmtList(how)))
			}
		}
	}
}

// precedesAlways: on every execution that reaches v, u has been executed before. Same function: dominance. Across
// inlined helpers: u comes earlier in the walk (program order of the inlined code) and v's reaching condition implies
// u's (atoms are stable within one activation, section 5 of DESIGN.md).
func precedesAlways(u, v *Visit) bool {
	if u.Ctx == v.Ctx {
		return instrDominates(u.Instr, v.Instr)
	}
	if u.Seq >= v.Seq {
		return false
	}
	h, _, err := implies(v.Cond, u.Cond)
	return err == nil && h
}

// R5: Add, Remove and WatchList perform no blocking channel operation at all - not even one with a done case: such a wait
// ends only when the reader gets to some record, i.e. when somebody consumes events.
func c05R5(a *An) {
	for _, name := range []string{"AddWith", "Remove", "WatchList"} {
		m := a.Ro.API[name]
		if m == nil {
			continue
		}
		var found []string
		n := 0
		for _, v := range a.walk(m).Visits {
			n++
			if desc, blocking := blockingOp(v.Ctx, v.Instr); blocking {
				found = append(found, a.P.instrPos(v.Instr)+" "+desc+" in "+shortFn(v.Instr.Parent()))
			}
		}
		a.R.ob("C05.R5", name+":no-channel-wait", "the control call waits on no channel (its completion must not depend on the reader's progress or on a consumer)", a.P.pos(m.Pos()), len(found) == 0,
			sprintf("%d instructions in all contexts; blocking channel operations: %s", n, fmtList(found)))
	}
}

// R3: close(done) guarded; Close returns without blocking when already closed.
func c05R3(a *An) {
	ro := a.Ro
	closeFn := ro.CloseFns[0]
	// (a) inside closeFn: the close(done) is under the lock and under !isClosed()
	w := a.walk(closeFn)
	n := 0
	for _, v := range w.Visits {
		args, ok := isBuiltinCall(v.Instr, "close")
		if !ok || len(args) != 1 || v.Ctx.fieldOfValue(args[0]) != ro.Done {
			continue
		}
		n++
		guarded, _ := v.Cond.everyConj(func(c Conj) bool {
			return c.has(func(l Lit) bool { t, closed := ro.closedLit(l); return t && !closed })
		})
		locked := len(v.Must) > 0
		a.R.ob("C05.R3", shortFn(closeFn)+":close(done)", "close(done) must be dominated by !isClosed() inside the mutex (a second close of a closed channel panics)",
			a.P.instrPos(v.Instr), guarded && locked, sprintf("must-lockset %s; reaching condition %s", LockSet(v.Must), stripIDs(v.Cond.String())))
	}
	if n != 1 {
		a.R.ob("C05.R3", shortFn(closeFn)+":close(done)#count", "exactly one close(done) site", a.P.pos(closeFn.Pos()), false, sprintf("%d sites", n))
	}
	// every caller of close(done) elsewhere?
	for _, fn := range a.P.srcFuncs(a.P.Main) {
		if fn == closeFn {
			continue
		}
		for _, b := range fn.Blocks {
			for _, in := range b.Instrs {
				if args, ok := isBuiltinCall(in, "close"); ok && len(args) == 1 && fieldOf(args[0]) == ro.Done {
					a.R.ob("C05.R3", shortFn(fn)+":close(done)", "the done channel has a single close site", a.P.instrPos(in), false, "second close site")
				}
			}
		}
	}
	// (b) API Close: everything that blocks or waits, and the file close, is under "close() returned false"
	cl := ro.API["Close"]
	if cl == nil {
		a.R.fail("anchor unresolved: API method Close")
		return
	}
	cw := a.walk(cl)
	sawCloseCall := false
	for _, v := range cw.Visits {
		if cal := visitCallee(v); cal != nil && cal == closeFn {
			sawCloseCall = true
		}
	}
	a.R.ob("C05.R3", "Close:calls-close", "Close marks the watcher closed through the single close(done) function", a.P.pos(cl.Pos()), sawCloseCall, "")
	for _, v := range cw.Visits {
		if v.Ctx.Fn == closeFn || v.Ctx.inChain(closeFn) {
			continue
		}
		desc, blocking := blockingOp(v.Ctx, v.Instr)
		if !blocking {
			continue
		}
		first, _ := v.Cond.everyConj(func(c Conj) bool {
			return c.has(func(l Lit) bool { return l.Neg && l.A.Kind == AkPred && l.A.Callee == closeFn })
		})
		a.R.ob("C05.R3", "Close:"+blockShape(v), "a repeated Close must return without blocking: "+desc+" only on the first-closer path",
			a.P.instrPos(v.Instr), first, "reaching condition "+stripIDs(v.Cond.String()))
	}
}

// R4: lock order acyclic, no re-acquisition.
func c05R4(a *An, rule string) {
	edges := map[string]map[string]string{}
	seen := map[string]bool{}
	for _, root := range a.roots() {
		w := a.walk(root)
		for _, v := range w.Visits {
			call, ok := v.Instr.(*ssa.Call)
			if !ok {
				continue
			}
			cal := v.Ctx.calleeOf(&call.Call)
			acq, _ := lockOp(cal)
			if !acq || len(call.Call.Args) == 0 {
				continue
			}
			id := strings.TrimPrefix(v.Ctx.path(call.Call.Args[0]), "&")
			fn := shortFn(v.Instr.Parent())
			key := fn + ":" + cal.Name() + "(" + id + ")"
			re := v.May[id]
			if !seen[key] || re {
				if !seen[key] || re {
					wit := sprintf("held before: %s", LockSet(v.May))
					if re {
						wit = sprintf("%s is (possibly) already held here via %s: self-deadlock", id, v.Ctx.chain())
					}
					if !seen[key] {
						a.R.ob(rule, key, "a mutex must not be acquired while it is already held", a.P.instrPos(v.Instr), !re, wit)
					} else if re {
						a.R.ob(rule, key+"#reacquire", "a mutex must not be acquired while it is already held", a.P.instrPos(v.Instr), false, wit)
					}
				}
				seen[key] = true
			}
			for h := range v.May {
				if h == id {
					continue
				}
				if edges[h] == nil {
					edges[h] = map[string]string{}
				}
				if _, ok := edges[h][id]; !ok {
					edges[h][id] = a.P.instrPos(v.Instr) + " via " + v.Ctx.chain()
				}
			}
		}
	}
	// cycle detection
	var nodes []string
	for h, m := range edges {
		nodes = append(nodes, h)
		for t := range m {
			nodes = append(nodes, t)
		}
	}
	nodes = uniq(nodes)
	color := map[string]int{}
	var cyc []string
	var dfs func(n string, path []string) bool
	dfs = func(n string, path []string) bool {
		color[n] = 1
		var ts []string
		for t := range edges[n] {
			ts = append(ts, t)
		}
		sort.Strings(ts)
		for _, t := range ts {
			if color[t] == 1 {
				cyc = append(append([]string{}, path...), n, t)
				return true
			}
			if color[t] == 0 && dfs(t, append(path, n)) {
				return true
			}
		}
		color[n] = 2
		return false
	}
	acyclic := true
	for _, n := range nodes {
		if color[n] == 0 && dfs(n, nil) {
			acyclic = false
			break
		}
	}
	var es []string
	for h, m := range edges {
		for t, where := range m {
			es = append(es, h+" -> "+t+" ("+where+")")
		}
	}
	sort.Strings(es)
	wit := "edges: " + fmtList(es)
	if !acyclic {
		wit = "cycle " + strings.Join(cyc, " -> ") + "; " + wit
	}
	a.R.ob(rule, "lock-order", "the lock-order graph over all API and reader contexts is acyclic", "-", acyclic, wit)
}

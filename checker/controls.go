package main

// Positive controls: after the real verdict of a property, the same rule code is run on the control functions of
// the in-memory overlay (ctl/ctl_linux.go.txt). A control that is not flagged fails the check.

import (
	"strings"

	"golang.org/x/tools/go/ssa"
)

type ctlCase struct {
	name string // control function (zzCtl...)
	rule string // prefix of the rule that must produce a failing obligation
	run  func(a *An, root *ssa.Function)
}

func ctlFn(p *Program, name string) *ssa.Function {
	for f := range p.All {
		if f.Name() == name && fnPkg(f) == p.Main && f.Signature.Recv() != nil {
			return f
		}
	}
	return nil
}

func controlsFor(prop string) []ctlCase {
	pair := func(rule string) func(a *An, root *ssa.Function) {
		return func(a *An, root *ssa.Function) {
			if tf := findTables(a); tf != nil {
				pairTables(a, tf, root, rule)
			}
		}
	}
	switch prop {
	case "C05":
		return []ctlCase{
			{"zzCtlSendUnderLock", "C05.R1", func(a *An, r *ssa.Function) { c05R1(a, "C05.R1") }},
			{"zzCtlBareSend", "C05.R2", func(a *An, r *ssa.Function) { c05R2(a, "C05.R2", []*ssa.Function{r}) }},
			{"zzCtlRelock", "C05.R4", func(a *An, r *ssa.Function) { c05R4(a, "C05.R4") }},
		}
	case "C06":
		return []ctlCase{
			{"zzCtlCloseChan", "C06.1", func(a *An, r *ssa.Function) { c06Closers(a) }},
			{"zzCtlBareSend", "C06.1", func(a *An, r *ssa.Function) { c06Senders(a, "C06.1") }},
			{"zzCtlGo", "C06.1", func(a *An, r *ssa.Function) { c06Senders(a, "C06.1") }},
		}
	case "C07":
		return []ctlCase{
			{"zzCtlUnguarded", "C07.1", func(a *An, r *ssa.Function) { a.onlyCtl = false; c07Guarded(a) }},
			{"zzCtlDeref", "C07.4", func(a *An, r *ssa.Function) { c07Deref(a, "C07.4") }},
			{"zzCtlSendUnderLock", "C07.5", func(a *An, r *ssa.Function) { c05R1(a, "C07.5") }},
		}
	case "C03":
		return []ctlCase{
			{"zzCtlGo", "C03.1", func(a *An, r *ssa.Function) { c03Goroutines(a) }},
			{"zzCtlBuffer", "C03.3", func(a *An, r *ssa.Function) { c03NoBuffering(a) }},
			{"zzCtlLenChan", "C03.4", func(a *An, r *ssa.Function) { c03NoChanLen(a, "C03.4") }},
		}
	case "C04":
		return []ctlCase{
			{"zzCtlDeleteOneTable", "C04.3", pair("C04.3")},
			{"zzCtlDeref", "C04.3n", func(a *An, r *ssa.Function) { c07Deref(a, "C04.3n") }},
		}
	case "C12":
		return []ctlCase{
			{"zzCtlDeleteOneTable", "C12.2", func(a *An, r *ssa.Function) {
				if tf := findTables(a); tf != nil {
					c12Release(a, tf, r, "C12.2")
				}
			}},
			{"zzCtlDeleteOneTable", "C12.3", pair("C12.3")},
		}
	case "C13":
		return []ctlCase{{"zzCtlGo", "C03.1", func(a *An, r *ssa.Function) { c03Goroutines(a) }}}
	case "C14":
		return []ctlCase{
			{"zzCtlGlobalWrite", "C14.2", func(a *An, r *ssa.Function) { c14Globals(a) }},
			{"zzCtlLenChan", "C14.3", func(a *An, r *ssa.Function) { c03NoChanLen(a, "C14.3") }},
		}
	case "C08":
		return []ctlCase{{"zzCtlAbs", "C08.2", func(a *An, r *ssa.Function) {
			if tf := findTables(a); tf != nil {
				c08PathStores(a, tf, []*ssa.Function{r})
			}
		}}}
	case "C19":
		return []ctlCase{{"zzCtlPrefix", "C19.1", func(a *An, r *ssa.Function) { c19Prefix(a) }}}
	case "C17":
		return []ctlCase{{"zzCtlDeleteFd", "C17.2", func(a *An, r *ssa.Function) {
			if kf := kqFind(a); kf != nil {
				computeRemoval(a, kf)
				c17Pairing(a, kf)
			}
		}}}
	case "C15":
		return []ctlCase{{"zzCtlNewEvent", "C15.ctl", func(a *An, r *ssa.Function) {
			for _, tr := range findTranslators(a) {
				if len(tr.probs) == 0 {
					tr.table, tr.spec, tr.probs = buildTable(tr.rows, paramSubject(tr.fn))
				}
				tableOb(a, "C15.ctl", "translate("+shortFn(tr.fn)+")", "control", tr, Table{}, maskName(nil), maskName(nil), nil)
			}
		}}}
	}
	return nil
}

// runControls executes the controls of a property; returns the number that fired.
func runControls(p *Program, e *Engine, res *Result, a0 *Roles) {
	cases := controlsFor(res.Property)
	if len(cases) == 0 {
		return
	}
	if !p.Ctl {
		res.fact("positive controls: %s", p.CtlNote)
		return
	}
	fired := 0
	for _, cs := range cases {
		root := ctlFn(p, cs.name)
		if root == nil {
			if p.Cfg.GOOS != "linux" {
				continue // this backend's overlay has a subset of the controls
			}
			res.fail("positive control %s not found in the overlay", cs.name)
			continue
		}
		scratch := &Result{Property: res.Property, Config: res.Config}
		p.ctlMode = true
		ro, err := discoverRoles(p, e)
		p.ctlMode = false
		if err != nil {
			// roles are discovered on the real code; ctlMode only affects package scans
			ro = a0
		}
		if a0 != nil {
			ro = a0
		}
		a := &An{P: p, E: e, Ro: ro, R: scratch, walks: map[*ssa.Function]*Walker{}, ctlRoots: []*ssa.Function{root}, onlyCtl: true}
		func() {
			p.ctlMode = true
			defer func() {
				p.ctlMode = false
				if x := recover(); x != nil {
					scratch.fail("panic in control: %v", x)
				}
			}()
			cs.run(a, root)
		}()
		hit := false
		for _, o := range scratch.Obligations {
			if !o.OK && strings.HasPrefix(o.Rule, cs.rule) {
				hit = true
			}
		}
		if hit {
			fired++
		} else {
			res.fail("positive control %s was NOT flagged by rule %s (the rule matches nothing: it would pass vacuously)", cs.name, cs.rule)
		}
	}
	res.Controls = fired
	res.fact("positive controls: %d flagged as required (of %s)", fired, ctlNames(cases))
}

func ctlNames(cs []ctlCase) string {
	var n []string
	for _, c := range cs {
		n = append(n, c.name+"->"+c.rule)
	}
	return strings.Join(n, ", ")
}

package main

import (
	"fmt"
	"go/token"
	"go/types"
	"sort"
	"strings"

	"golang.org/x/tools/go/ssa"
)

func init() {
	register(&property{
		Meta: propMeta{
			ID:    "C15",
			Title: "Native notification flags map to the documented operations on every backend",
			Explanation: "Table extraction (E-D) from the type-checked SSA of every backend, cross-compiled per GOOS/GOARCH: each translator / request function is accepted only if its sole effect on the accumulator is `|= constant` (plus kqueue's single `&^= Write`) under guards that are any-of bit tests of one input; the extracted guard->constant rows are compared with the documented tables frozen in the checker. " +
				"Because any other effect or guard form is rejected (undecided = failure), the comparison decides the function for all 2^n flag combinations and the union law f(a|b)=f(a)|f(b) holds by form. " +
				"Covered: inotify translate + request (+ noFollow) + xSupports; kqueue translate (incl. Write-dropped-iff-Remove), noteAllEvents = union of translated flags and what AddWith passes, xSupports; Windows newEvent, toWindowsFlags, toFSnotifyFlags, xSupports (Chmod never produced); FEN xSupports. Cross-table consistency: every requested flag is translated to the requesting operation and every default operation's flags are requested. " +
				"Not decided: that the kernels raise those flags; FEN's stat-based translation.",
			Rule:        "one obligation per extracted table (exact equality with the documented table), per special effect, per cross-table consistency fact; non-trivial = table has at least one row",
			Assumptions: []string{"go/types + go/ssa", "x/sys constants as loaded for the configuration", "documented tables frozen in c15.go (README/Watcher docs, inotify(7), kqueue(2))", "Op.Has semantics (C16)"},
			MinObl:      1,
		},
		Configs: tiered(allBackendsQ, allBackendsT),
		Run:     runC15,
	})
}

func runC15(p *Program, e *Engine, r *Result, tier string) {
	a := newAn(p, e, r, true)
	if a == nil {
		return
	}
	files := strings.Join(r.Files, " ")
	switch {
	case strings.Contains(files, "backend_inotify.go"):
		c15Inotify(a)
	case strings.Contains(files, "backend_kqueue.go"):
		c15Kqueue(a)
	case strings.Contains(files, "backend_windows.go"):
		c15Windows(a)
	case strings.Contains(files, "backend_fen.go"):
	default:
		r.fail("no known backend file is compiled on %s (files: %s)", r.Config, files)
		return
	}
	c15Supports(a, strings.Contains(files, "backend_inotify.go"))
}

// opField returns the name of Event's field of type Op.
func opFieldName(a *An) string {
	st := a.Ro.Event.Underlying().(*types.Struct)
	for i := 0; i < st.NumFields(); i++ {
		if types.Identical(st.Field(i).Type(), a.Ro.Op) {
			return st.Field(i).Name()
		}
	}
	return ""
}

func isUintType(t types.Type) bool {
	b, ok := t.Underlying().(*types.Basic)
	return ok && b.Info()&types.IsUnsigned != 0
}

type extracted struct {
	fn    *ssa.Function
	rows  []Row
	table Table
	spec  []Row
	probs []string
}

// translators: functions returning Event that accumulate into a local Event's Op field.
func findTranslators(a *An) []*extracted {
	var out []*extracted
	opf := opFieldName(a)
	for _, fn := range a.P.srcFuncs(a.P.Main) {
		res := fn.Signature.Results()
		if res.Len() != 1 || !types.Identical(res.At(0).Type(), a.Ro.Event) {
			continue
		}
		hasUint := false
		for i := 0; i < fn.Signature.Params().Len(); i++ {
			if isUintType(fn.Signature.Params().At(i).Type()) && !types.Identical(fn.Signature.Params().At(i).Type(), a.Ro.Op) {
				hasUint = true
			}
		}
		if !hasUint {
			continue
		}
		w := a.E.Walk(fn, WalkOpts{})
		a.R.Sites += len(w.Visits)
		vi := indexVisits(w)
		var root *Ctx
		if len(w.Visits) > 0 {
			root = w.Visits[0].Ctx.root()
		}
		for _, b := range fn.Blocks {
			for _, in := range b.Instrs {
				al, ok := in.(*ssa.Alloc)
				if !ok || !types.Identical(deref(al.Type()), a.Ro.Event) {
					continue
				}
				rows, err := rowsForField(a, vi, root, al, opf)
				if err != nil {
					out = append(out, &extracted{fn: fn, probs: []string{err.Error()}})
					continue
				}
				if len(rows) == 0 {
					continue
				}
				ex := &extracted{fn: fn, rows: rows}
				out = append(out, ex)
			}
		}
	}
	return out
}

func paramSubject(fn *ssa.Function) func(string) bool {
	return func(s string) bool {
		for _, p := range fn.Params {
			if s == "p:"+p.Name() {
				return true
			}
		}
		return false
	}
}

func tableOb(a *An, rule, key, desc string, ex *extracted, want Table, inName, outName func(uint64) string, allowSpecial func(Row) (bool, string)) {
	pos := a.P.pos(ex.fn.Pos())
	if len(ex.probs) > 0 {
		a.R.ob(rule, key, desc, pos, false, "not tabular (undecided): "+strings.Join(ex.probs, "; "))
		return
	}
	var bad []string
	for _, s := range ex.spec {
		if allowSpecial != nil {
			if ok, why := allowSpecial(s); ok {
				continue
			} else if why != "" {
				bad = append(bad, why)
				continue
			}
		}
		bad = append(bad, fmt.Sprintf("effect %s %#x at %s is not an OR of a constant", s.Kind, s.K, s.Pos))
	}
	diffs := diffTables(ex.table, want, inName, outName)
	ok := len(diffs) == 0 && len(bad) == 0
	wit := "extracted: " + ex.table.String(inName, outName)
	if !ok {
		wit = strings.Join(append(diffs, bad...), "; ") + " || " + wit
	}
	a.R.ob(rule, key, desc, pos, ok, wit)
}

func mk(names map[string]uint64, spec map[string]string, out map[string]uint64, a *An, what string) Table {
	t := Table{}
	for in, outs := range spec {
		k, ok := names[in]
		if !ok {
			a.R.fail("anchor unresolved: native constant %s (%s)", in, what)
			continue
		}
		var v uint64
		for _, o := range strings.Split(outs, "|") {
			ov, ok := out[o]
			if !ok {
				a.R.fail("anchor unresolved: constant %s (%s)", o, what)
				continue
			}
			v |= ov
		}
		for b := uint64(1); b != 0 && b <= k; b <<= 1 {
			if k&b != 0 {
				t[b] |= v
			}
		}
	}
	return t
}

// ---------------------------------------------------------------------------

var inotifyTranslate = map[string]string{
	"IN_CREATE": "Create", "IN_MOVED_TO": "Create",
	"IN_DELETE": "Remove", "IN_DELETE_SELF": "Remove",
	"IN_MODIFY":     "Write",
	"IN_MOVED_FROM": "Rename", "IN_MOVE_SELF": "Rename",
	"IN_ATTRIB": "Chmod",
	"IN_OPEN":   "xUnportableOpen", "IN_ACCESS": "xUnportableRead",
	"IN_CLOSE_WRITE": "xUnportableCloseWrite", "IN_CLOSE_NOWRITE": "xUnportableCloseRead",
}

var inotifyRequest = map[string]string{
	"Create": "IN_CREATE", "Write": "IN_MODIFY", "Remove": "IN_DELETE|IN_DELETE_SELF",
	"Rename": "IN_MOVED_TO|IN_MOVED_FROM|IN_MOVE_SELF", "Chmod": "IN_ATTRIB",
	"xUnportableOpen": "IN_OPEN", "xUnportableRead": "IN_ACCESS",
	"xUnportableCloseWrite": "IN_CLOSE_WRITE", "xUnportableCloseRead": "IN_CLOSE_NOWRITE",
}

type inotifyTables struct {
	translate Table
	request   Table
	ok        bool
}

func c15Inotify(a *An) *inotifyTables {
	res := &inotifyTables{}
	opN, opBy := opNames(a)
	inN, inBy := nativeNames(a, "IN_")
	trs := findTranslators(a)
	if len(trs) != 1 {
		a.R.fail("anchor unresolved: exactly one translator (function returning Event that ORs constants into its Op) expected, found %d", len(trs))
		return nil
	}
	tr := trs[0]
	if len(tr.probs) == 0 {
		tr.table, tr.spec, tr.probs = buildTable(tr.rows, paramSubject(tr.fn))
	}
	want := mk(inBy, inotifyTranslate, opBy, a, "inotify translate")
	tableOb(a, "C15.inotify", "translate("+shortFn(tr.fn)+")", "inotify mask -> Op: exactly the documented table for all 2^n masks (housekeeping bits IN_IGNORED, IN_UNMOUNT, IN_Q_OVERFLOW, IN_ISDIR map to nothing)",
		tr, want, maskName(inN), maskName(opN), nil)
	res.translate = tr.table
	a.R.fact("inotify translator %s: %d OR rows", shortFn(tr.fn), len(tr.rows))

	// request chain: an argument of a call, reachable from AddWith, that is an OR chain with >=3 rows
	addWith := a.Ro.API["AddWith"]
	w := a.walk(addWith)
	vi := indexVisits(w)
	var req *extracted
	var reqV ssa.Value
	var reqC *Ctx
	var noFollow []Row
	for _, v := range w.Visits {
		call, ok := v.Instr.(*ssa.Call)
		if !ok {
			continue
		}
		for _, arg := range call.Call.Args {
			if !isUintType(arg.Type()) {
				continue
			}
			// the chain may be built in place (a local variable) or returned by a helper function
			rv, rc := v.Ctx.resolve(stripConv(arg))
			if _, isPhi := rv.(*ssa.Phi); !isPhi {
				if _, isBin := rv.(*ssa.BinOp); !isBin {
					continue
				}
			}
			rows, err := rowsForValue(a, vi, rc, rv)
			if err != nil || len(rows) < 3 {
				if err != nil && req == nil && strings.Contains(fmt.Sprint(arg.Type()), "uint32") && (rc.Fn.Parent() == addWith || rc.Fn == addWith || rc.Parent != nil) {
					if cal := v.Ctx.calleeOf(&call.Call); cal != nil && a.P.inMain(cal) {
						req = &extracted{fn: rc.Fn, probs: []string{err.Error()}}
					}
				}
				continue
			}
			req = &extracted{fn: rc.Fn, rows: rows}
			reqV, reqC = rv, rc
		}
	}
	if req == nil {
		a.R.fail("anchor unresolved: request table (an OR chain of native flags passed on from AddWith)")
		return nil
	}
	if len(req.probs) == 0 {
		// split off the noFollow row (bool guard)
		var rest []Row
		for _, r := range req.rows {
			isNF := false
			if len(r.Cond) == 1 && len(r.Cond[0]) == 1 {
				for _, l := range r.Cond[0] {
					if l.A.Kind == AkBool && !l.Neg && strings.HasSuffix(l.A.Subj, ".noFollow") {
						isNF = true
					}
				}
			}
			if isNF {
				noFollow = append(noFollow, r)
			} else {
				rest = append(rest, r)
			}
		}
		req.table, req.spec, req.probs = buildTable(rest, func(s string) bool { return strings.HasSuffix(s, ".op") })
	}
	wantReq := mk(opBy, inotifyRequest, inBy, a, "inotify request")
	tableOb(a, "C15.inotify", "request("+shortFn(req.fn)+")", "requested Op -> inotify flags: exactly the documented table for all 2^9 operation sets",
		req, wantReq, maskName(opN), maskName(inN), nil)
	res.request = req.table
	// what actually reaches the kernel: the mask argument of every inotify_add_watch below AddWith is the request
	// chain judged above, OR-ed with nothing but the flags recorded in an existing entry and IN_MASK_ADD
	if reqV != nil {
		allowedConst := inBy["IN_MASK_ADD"]
		for _, v := range syscallVisits(a, w, "InotifyAddWatch") {
			call := v.Instr.(*ssa.Call)
			if len(call.Call.Args) < 3 {
				continue
			}
			var extra uint64
			var odd []string
			seen := map[cv]bool{}
			var rec func(c *Ctx, x ssa.Value, depth int)
			rec = func(c *Ctx, x ssa.Value, depth int) {
				x = stripConv(x)
				rv, rc := c.resolve(x)
				rv = stripConv(rv)
				if rv == reqV && rc == reqC {
					return // the request chain itself
				}
				key := cv{rc, rv}
				if seen[key] || depth > 30 {
					return
				}
				seen[key] = true
				switch t := rv.(type) {
				case *ssa.Const:
					if k, ok := constUint(t); ok {
						extra |= k
						return
					}
				case *ssa.BinOp:
					if t.Op == token.OR {
						rec(rc, t.X, depth+1)
						rec(rc, t.Y, depth+1)
						return
					}
				case *ssa.Phi:
					for _, e := range t.Edges {
						rec(rc, e, depth+1)
					}
					return
				case *ssa.UnOp:
					if t.Op == token.MUL {
						addr, actx := rc.resolve(t.X)
						if al, ok := addr.(*ssa.Alloc); ok {
							for _, st := range cellStores(al) {
								sc := rc
								if st.Parent() == al.Parent() {
									sc = actx
								}
								rec(sc, st.Val, depth+1)
							}
							// a parameter spilled into a cell has no store: look at the binding of the parameter it was
							// initialised from (go/ssa stores the parameter into the cell explicitly, so nothing more here)
							return
						}
						if fa, ok := t.X.(*ssa.FieldAddr); ok {
							if f := fieldOf(fa); f != nil && isUintType(f.Type()) {
								if n, ok := deref(fa.X.Type()).(*types.Named); ok && n.Obj().Pkg() == a.P.MainTy {
									return // flags recorded in an entry of the tables (what was requested before)
								}
							}
						}
					}
				}
				odd = append(odd, stripIDs(rc.path(rv)))
			}
			rec(v.Ctx, call.Call.Args[2], 0)
			okk := extra&^allowedConst == 0 && len(odd) == 0
			wit := "request chain | recorded flags | IN_MASK_ADD"
			if !okk {
				wit = sprintf("also OR-ed into the mask: constants %s; other values %s", maskName(inN)(extra&^allowedConst), fmtList(odd))
			}
			a.R.ob("C15.inotify", "request:mask-passed-to-kernel@"+shortFn(call.Parent()), "the mask handed to inotify_add_watch is the request chain, the flags already recorded for the path, and IN_MASK_ADD - nothing else is asked of the kernel", a.P.instrPos(call), okk, wit)
		}
	}
	nfOK := len(noFollow) == 1 && noFollow[0].K == inBy["IN_DONT_FOLLOW"]
	a.R.ob("C15.inotify", "request:noFollow", "the noFollow option adds IN_DONT_FOLLOW and nothing else", a.P.pos(req.fn.Pos()), nfOK, sprintf("%d row(s) guarded by noFollow", len(noFollow)))
	// cross-table consistency (derived from the extracted tables, not the frozen ones)
	var incons []string
	for ob, flags := range req.table {
		for fb := uint64(1); fb != 0 && fb <= flags; fb <<= 1 {
			if flags&fb == 0 {
				continue
			}
			tr := res.translate[fb]
			allowed := ob
			if ob == opBy["Rename"] {
				allowed |= opBy["Create"]
			}
			if tr&allowed == 0 {
				incons = append(incons, sprintf("%s requests %s, which translates to %s", maskName(opN)(ob), maskName(inN)(fb), maskName(opN)(tr)))
			}
		}
	}
	for fb, ops := range res.translate {
		requested := false
		for ob, flags := range req.table {
			if flags&fb != 0 && (ops&ob != 0 || (ob == opBy["Rename"] && ops == opBy["Create"])) {
				requested = true
			}
		}
		if !requested {
			incons = append(incons, sprintf("%s translates to %s but no such operation requests it", maskName(inN)(fb), maskName(opN)(ops)))
		}
	}
	sort.Strings(incons)
	a.R.ob("C15.inotify", "consistency", "every requested flag is translated to the requesting operation and every translated flag is requested by its operation (MOVED_TO belongs to Rename)", "-", len(incons) == 0, strings.Join(incons, "; "))
	res.ok = len(tr.probs) == 0 && len(req.probs) == 0
	return res
}

// c01Subscription (C01.5): the flags requested for defaultOpts.op cover every flag translated to a default op.
func c01Subscription(a *An, rule string) {
	// run the extraction quietly into a scratch result
	saved := a.R
	scratch := &Result{Config: saved.Config}
	a.R = scratch
	tabs := c15Inotify(a)
	a.R = saved
	saved.Sites += scratch.Sites
	for _, e := range scratch.Errors {
		saved.fail("%s", e)
	}
	if tabs == nil {
		return
	}
	for _, o := range scratch.Obligations {
		if !o.OK && strings.Contains(o.Witness, "not tabular") {
			saved.ob(rule, "tables-extractable", "the translate/request tables can be extracted", o.Pos, false, o.Witness)
			return
		}
	}
	// defaultOpts.op: constant stored by the package initialiser
	var def uint64
	found := false
	if g, ok := a.P.Main.Members["defaultOpts"].(*ssa.Global); ok {
		if init := a.P.Main.Func("init"); init != nil {
			for _, b := range init.Blocks {
				for _, in := range b.Instrs {
					st, ok := in.(*ssa.Store)
					if !ok {
						continue
					}
					if fa, ok := st.Addr.(*ssa.FieldAddr); ok && fa.X == ssa.Value(g) && types.Identical(deref(fa.Type()), a.Ro.Op) {
						if k, ok := constUint(st.Val); ok {
							def, found = k, true
						}
					}
				}
			}
		}
	}
	if !found {
		// fall back: any package-level struct variable with an Op-typed field initialised to a constant
		init := a.P.Main.Func("init")
		if init != nil {
			for _, b := range init.Blocks {
				for _, in := range b.Instrs {
					if st, ok := in.(*ssa.Store); ok {
						if fa, ok := st.Addr.(*ssa.FieldAddr); ok {
							if _, isG := fa.X.(*ssa.Global); isG && types.Identical(deref(fa.Type()), a.Ro.Op) {
								if k, ok := constUint(st.Val); ok {
									def, found = k, true
								}
							}
						}
					}
				}
			}
		}
	}
	if !found {
		saved.fail("anchor unresolved: default operation set (package-level options variable with an Op field)")
		return
	}
	opN, _ := opNames(a)
	inN, _ := nativeNames(a, "IN_")
	var requested uint64
	for ob, flags := range tabs.request {
		if def&ob != 0 {
			requested |= flags
		}
	}
	var missing []string
	for fb, ops := range tabs.translate {
		if ops&def != 0 && requested&fb == 0 {
			missing = append(missing, sprintf("%s (-> %s)", maskName(inN)(fb), maskName(opN)(ops)))
		}
	}
	sort.Strings(missing)
	// the default operation set is the documented one: the five portable operations (a plain Add reports all of them)
	_, opBy := opNames(a)
	wantDef := opBy["Create"] | opBy["Write"] | opBy["Remove"] | opBy["Rename"] | opBy["Chmod"]
	saved.ob(rule, "default-operations", "a plain Add asks for the five portable operations Create, Write, Remove, Rename and Chmod", "-", def == wantDef, "default operation set: "+maskName(opN)(def))
	// and options are applied: the function that builds the option set calls every non-nil option on the value it returns
	c15OptionsApplied(a, saved, rule)
	saved.ob(rule, "default-subscription", "for the default operations "+maskName(opN)(def)+" every native flag that the translator maps to one of them is requested from the kernel",
		"-", len(missing) == 0, sprintf("requested %s; not requested: %s", maskName(inN)(requested), fmtList(missing)))
}

// ---------------------------------------------------------------------------

func c15Kqueue(a *An) {
	opN, opBy := opNames(a)
	ntN, ntBy := nativeNames(a, "NOTE_")
	trs := findTranslators(a)
	if len(trs) != 1 {
		a.R.fail("anchor unresolved: exactly one kqueue translator expected, found %d", len(trs))
		return
	}
	tr := trs[0]
	want := mk(ntBy, map[string]string{"NOTE_DELETE": "Remove", "NOTE_WRITE": "Write", "NOTE_RENAME": "Rename", "NOTE_ATTRIB": "Chmod"}, opBy, a, "kqueue translate")
	// `op |= K under bit(a) ∧ ¬bit(b)` is `op |= K under bit(a)` followed by `op &^= K under bit(a) ∧ bit(b)`: split such a
	// row so that the one permitted clearing effect is judged in either spelling
	nClear := 0
	var rows2 []Row
	for _, r := range tr.rows {
		split := false
		if r.Kind == "or" && len(r.Cond) == 1 {
			var pos, negs []Lit
			other := false
			for _, l := range r.Cond[0] {
				switch {
				case l.A.Kind == AkBit && !l.Neg:
					pos = append(pos, l)
				case l.A.Kind == AkBit && l.Neg:
					negs = append(negs, l)
				default:
					other = true
				}
			}
			if !other && len(pos) == 1 && len(negs) >= 1 {
				split = true
				p := pos[0]
				rows2 = append(rows2, Row{K: r.K, Kind: "or", Cond: DNF{Conj{p.A.ID(): p}}, Pos: r.Pos, In: r.In})
				var nb uint64
				for _, l := range negs {
					nb |= l.A.Bits
				}
				nClear++
				if !(r.K == opBy["Write"] && want[p.A.Bits] == opBy["Write"] && want[nb] == opBy["Remove"]) {
					tr.probs = append(tr.probs, sprintf("%s is withheld under %s: not 'drop Write iff Remove is present'", maskName(opN)(r.K), stripIDs(r.Cond.String())))
				}
			}
		}
		if !split {
			rows2 = append(rows2, r)
		}
	}
	tr.rows = rows2
	if len(tr.probs) == 0 {
		tr.table, tr.spec, tr.probs = buildTable(tr.rows, paramSubject(tr.fn))
	}
	tableOb(a, "C15.kqueue", "translate("+shortFn(tr.fn)+")", "kqueue fflags -> Op: exactly the documented table", tr, want, maskName(ntN), maskName(opN),
		func(r Row) (bool, string) {
			if r.Kind != "clear" {
				return false, ""
			}
			nClear++
			// Write dropped iff Remove present: guard = bit(Op,Write) ∧ bit(Op,Remove) on the accumulator
			okGuard := len(r.Cond) == 1
			if okGuard {
				var bits uint64
				for _, l := range r.Cond[0] {
					if strings.Contains(l.A.Subj, "rangeindex") || strings.Contains(l.A.Subj, "next(range(") {
						continue // the loop over a data table has finished: not part of the guard
					}
					if (l.A.Kind != AkBit && l.A.Kind != AkAll) || l.Neg {
						okGuard = false
					}
					bits |= l.A.Bits
				}
				if bits != opBy["Write"]|opBy["Remove"] {
					okGuard = false
				}
			}
			if r.K != opBy["Write"] || !okGuard {
				return false, sprintf("clear of %s under %s is not 'drop Write iff Remove is present'", maskName(opN)(r.K), stripIDs(r.Cond.String()))
			}
			return true, ""
		})
	a.R.ob("C15.kqueue", "translate:write-dropped-iff-remove", "kqueue alone drops Write when Remove is present (exactly one such effect)", a.P.pos(tr.fn.Pos()), nClear == 1, sprintf("%d clearing effect(s)", nClear))
	// noteAllEvents: the constant AddWith passes for user watches equals the union of translated flags
	var union uint64
	for b := range tr.table {
		union |= b
	}
	addWith := a.Ro.API["AddWith"]
	w := a.walk(addWith)
	var passed []string
	okPass := false
	for _, v := range w.Visits {
		call, ok := v.Instr.(*ssa.Call)
		if !ok || v.Ctx.Parent != nil {
			continue
		}
		cal := v.Ctx.calleeOf(&call.Call)
		if cal == nil || !a.P.inMain(cal) {
			continue
		}
		for i, arg := range call.Call.Args {
			if i == 0 || !isUintType(arg.Type()) {
				continue
			}
			if k, ok := constUint(arg); ok && k != 0 {
				passed = append(passed, sprintf("%s(%s)", shortFn(cal), maskName(ntN)(k)))
				if k == union {
					okPass = true
				} else {
					okPass = false
					passed = append(passed, "MISMATCH")
				}
			}
		}
	}
	a.R.ob("C15.kqueue", "request:noteAllEvents", "AddWith subscribes to exactly the union of the flags the translator understands", a.P.pos(addWith.Pos()), okPass,
		sprintf("translator understands %s; AddWith passes %s", maskName(ntN)(union), fmtList(passed)))
}

// ---------------------------------------------------------------------------

func c15Windows(a *An) {
	opN, opBy := opNames(a)
	sysN, sysBy := nativeNames(a, "sysFS")
	trs := findTranslators(a)
	if len(trs) != 1 {
		a.R.fail("anchor unresolved: exactly one Windows translator expected, found %d", len(trs))
		return
	}
	tr := trs[0]
	if len(tr.probs) == 0 {
		tr.table, tr.spec, tr.probs = buildTable(tr.rows, paramSubject(tr.fn))
	}
	want := mk(sysBy, map[string]string{"sysFSCREATE": "Create", "sysFSMOVEDTO": "Create", "sysFSDELETE": "Remove", "sysFSDELETESELF": "Remove",
		"sysFSMODIFY": "Write", "sysFSMOVEDFROM": "Rename", "sysFSMOVESELF": "Rename"}, opBy, a, "windows translate")
	tableOb(a, "C15.windows", "translate("+shortFn(tr.fn)+")", "internal sysFS mask -> Op: exactly the documented table; Chmod is never produced", tr, want, maskName(sysN), maskName(opN), nil)
	chmod := false
	for _, v := range tr.table {
		if v&opBy["Chmod"] != 0 {
			chmod = true
		}
	}
	a.R.ob("C15.windows", "translate:no-chmod", "Windows never reports Chmod", a.P.pos(tr.fn.Pos()), !chmod, "")
	// toWindowsFlags (OR chain returned) and toFSnotifyFlags (switch-return)
	fnN, fnBy := nativeNames(a, "FILE_NOTIFY_CHANGE_")
	_, actBy := nativeNames(a, "FILE_ACTION_")
	var toWin, toFS *ssa.Function
	for _, fn := range a.P.srcFuncs(a.P.Main) {
		sig := fn.Signature
		if sig.Recv() == nil || sig.Params().Len() != 1 || sig.Results().Len() != 1 || !isUintType(sig.Params().At(0).Type()) || !isUintType(sig.Results().At(0).Type()) {
			continue
		}
		if types.Identical(sig.Params().At(0).Type(), a.Ro.Op) {
			continue
		}
		// classify by result form: constants selected by the value of the argument (switch, or a lookup in a constant
		// map keyed by the argument) versus a mask built from the argument's bits
		allConst, anyConst := true, false
		for _, b := range fn.Blocks {
			if r, ok := b.Instrs[len(b.Instrs)-1].(*ssa.Return); ok {
				if _, ok := constUint(r.Results[0]); ok {
					anyConst = true
				} else if _, isLk := actionMapLookup(a, fn, r.Results[0]); isLk {
					anyConst = true
				} else {
					allConst = false
				}
			}
		}
		if allConst && anyConst {
			toFS = fn
		} else {
			toWin = fn
		}
	}
	if toWin == nil || toFS == nil {
		a.R.fail("anchor unresolved: Windows flag conversion functions (uint->uint methods): toWindowsFlags=%v toFSnotifyFlags=%v", toWin != nil, toFS != nil)
		return
	}
	{
		w := a.E.Walk(toWin, WalkOpts{})
		a.R.Sites += len(w.Visits)
		vi := indexVisits(w)
		ex := &extracted{fn: toWin}
		var root *Ctx
		if len(w.Visits) > 0 {
			root = w.Visits[0].Ctx.root()
		}
		for _, b := range toWin.Blocks {
			if r, ok := b.Instrs[len(b.Instrs)-1].(*ssa.Return); ok {
				rows, err := rowsForValue(a, vi, root, r.Results[0])
				if err != nil {
					ex.probs = append(ex.probs, err.Error())
				}
				ex.rows = append(ex.rows, rows...)
			}
		}
		if len(ex.probs) == 0 {
			ex.table, ex.spec, ex.probs = buildTable(ex.rows, paramSubject(toWin))
		}
		want := mk(sysBy, map[string]string{"sysFSMODIFY": "FILE_NOTIFY_CHANGE_LAST_WRITE",
			"sysFSMOVE": "FILE_NOTIFY_CHANGE_FILE_NAME|FILE_NOTIFY_CHANGE_DIR_NAME", "sysFSCREATE": "FILE_NOTIFY_CHANGE_FILE_NAME|FILE_NOTIFY_CHANGE_DIR_NAME",
			"sysFSDELETE": "FILE_NOTIFY_CHANGE_FILE_NAME|FILE_NOTIFY_CHANGE_DIR_NAME"}, fnBy, a, "toWindowsFlags")
		tableOb(a, "C15.windows", "request("+shortFn(toWin)+")", "internal mask -> FILE_NOTIFY_CHANGE_* filter: exactly the documented table", ex, want, maskName(sysN), maskName(fnN), nil)
	}
	{
		w := a.E.Walk(toFS, WalkOpts{})
		a.R.Sites += len(w.Visits)
		var root *Ctx
		if len(w.Visits) > 0 {
			root = w.Visits[0].Ctx.root()
		}
		got := map[string]uint64{}
		var probs []string
		var rows []Row
		var err error
		mapForm := false
		for _, b := range toFS.Blocks {
			if r, ok := b.Instrs[len(b.Instrs)-1].(*ssa.Return); ok {
				if m, isLk := actionMapLookup(a, toFS, r.Results[0]); isLk {
					// data-driven form: return table[action] for an immutable constant map (missing keys give 0)
					mapForm = true
					if !w.Visits[0].Cond.isTrue() || len(toFS.Blocks) != 1 {
						probs = append(probs, "the map lookup is not the function's only path")
					}
					for k, v := range m {
						if kv, ok := constUint(v); ok {
							got[k] |= kv
						}
					}
				}
			}
		}
		if !mapForm {
			rows, err = rowsForReturns(a, w, root, 0)
		}
		if err != nil {
			probs = append(probs, err.Error())
		}
		for _, r := range rows {
			if r.K == 0 {
				continue
			}
			for _, c := range r.Cond {
				n := 0
				for _, l := range c {
					if l.A.Kind == AkCmp && !l.Neg && l.A.Op == "==" {
						got[l.A.K] |= r.K
						n++
					} else if !(l.A.Kind == AkCmp && l.Neg) {
						probs = append(probs, "guard "+stripIDs(l.String()))
					}
				}
				if n != 1 {
					probs = append(probs, sprintf("return %#x under %s", r.K, stripIDs(c.String())))
				}
			}
		}
		wantM := map[string]uint64{}
		for act, sys := range map[string]string{"FILE_ACTION_ADDED": "sysFSCREATE", "FILE_ACTION_REMOVED": "sysFSDELETE", "FILE_ACTION_MODIFIED": "sysFSMODIFY",
			"FILE_ACTION_RENAMED_OLD_NAME": "sysFSMOVEDFROM", "FILE_ACTION_RENAMED_NEW_NAME": "sysFSMOVEDTO"} {
			wantM[sprintf("c:%d", actBy[act])] = sysBy[sys]
		}
		var diffs []string
		for k, v := range wantM {
			if got[k] != v {
				diffs = append(diffs, sprintf("action %s yields %s, documented %s", k, maskName(sysN)(got[k]), maskName(sysN)(v)))
			}
		}
		for k, v := range got {
			if _, ok := wantM[k]; !ok {
				diffs = append(diffs, sprintf("undocumented action %s yields %s", k, maskName(sysN)(v)))
			}
		}
		sort.Strings(diffs)
		a.R.ob("C15.windows", "actions("+shortFn(toFS)+")", "FILE_ACTION_* -> internal mask: exactly the five documented actions", a.P.pos(toFS.Pos()), len(diffs) == 0 && len(probs) == 0,
			strings.Join(append(diffs, probs...), "; "))
	}
}

// ---------------------------------------------------------------------------

// foldConstArrayTests: `for _, k := range [...]T{K1, K2, ...} { if x&k != 0 { ... } }` tests x against some element of a
// local array of constants; over all iterations that is "x has any of K1|K2|...". The iteration literals are dropped.
func foldConstArrayTests(d DNF) DNF {
	var out DNF
	for _, c := range d {
		nc := Conj{}
		folded := false
		for id, l := range c {
			if l.A.Kind == AkCmp && l.Neg && l.A.Op == "==" && l.A.K == "c:0" {
				if b, ok := l.A.V.(*ssa.BinOp); ok {
					if and, ok := stripConv(b.X).(*ssa.BinOp); ok && and.Op == token.AND {
						for _, pair := range [][2]ssa.Value{{and.X, and.Y}, {and.Y, and.X}} {
							ev := pair[0]
							if l.A.Ctx != nil {
								ev, _ = l.A.Ctx.resolve(ev)
							}
							if ks, ok := localConstArrayElem(ev); ok {
								var bits uint64
								for _, k := range ks {
									bits |= k
								}
								at := &Atom{Kind: AkAny, Subj: l.A.Ctx.path(pair[1]), Bits: bits, V: l.A.V, Ctx: l.A.Ctx}
								if popcount(bits) == 1 {
									at.Kind = AkBit
								}
								nc[at.ID()] = Lit{A: at}
								folded = true
							}
						}
						if folded {
							continue
						}
					}
				}
			}
			nc[id] = l
		}
		if folded {
			for id, l := range nc {
				if l.A.Kind == AkCmp && strings.Contains(l.A.Subj, "rangeindex") {
					delete(nc, id)
				}
			}
		}
		out = append(out, nc)
	}
	return out
}

// localConstArrayElem: v loads an element (at a non-constant index) of a local array all of whose elements are stored
// once, with integer constants; returns those constants.
func localConstArrayElem(v ssa.Value) ([]uint64, bool) {
	// a package-level array of constants, filled by the initialiser only
	if ks, ok := globalConstArrayElem(v); ok {
		return ks, true
	}
	var al *ssa.Alloc
	switch x := stripConv(v).(type) {
	case *ssa.UnOp: // *(&arr[i])
		if x.Op != token.MUL {
			return nil, false
		}
		ia, ok := x.X.(*ssa.IndexAddr)
		if !ok {
			return nil, false
		}
		al, _ = ia.X.(*ssa.Alloc)
	case *ssa.Index: // (*arr)[i]: ranging over an array value copies it first
		if ld, ok := x.X.(*ssa.UnOp); ok && ld.Op == token.MUL {
			al, _ = ld.X.(*ssa.Alloc)
		}
	}
	if al == nil {
		return nil, false
	}
	arr, ok := deref(al.Type()).Underlying().(*types.Array)
	if !ok {
		return nil, false
	}
	vals := map[int64]uint64{}
	refs := al.Referrers()
	if refs == nil {
		return nil, false
	}
	for _, r := range *refs {
		switch x := r.(type) {
		case *ssa.IndexAddr:
			rr := x.Referrers()
			if rr == nil {
				continue
			}
			for _, u := range *rr {
				switch y := u.(type) {
				case *ssa.Store:
					idx, ok1 := constUint(x.Index)
					k, ok2 := constUint(y.Val)
					if !ok1 || !ok2 || y.Addr != ssa.Value(x) {
						return nil, false
					}
					if _, dup := vals[int64(idx)]; dup {
						return nil, false
					}
					vals[int64(idx)] = k
				case *ssa.UnOp, *ssa.DebugRef:
				default:
					return nil, false
				}
			}
		case *ssa.DebugRef:
		case *ssa.UnOp:
			// a copy of the whole array: fine when the copy is only indexed
			if ur := x.Referrers(); ur != nil {
				for _, u := range *ur {
					switch u.(type) {
					case *ssa.Index, *ssa.DebugRef:
					default:
						return nil, false
					}
				}
			}
		default:
			return nil, false // the array is sliced or passed on
		}
	}
	if int64(len(vals)) != arr.Len() {
		return nil, false
	}
	var out []uint64
	for _, k := range vals {
		out = append(out, k)
	}
	return out, true
}

// c15OptionsApplied: the option builder (variadic options in, option struct out) calls each element of its parameter on
// the address of the struct it returns, under nothing but a nil test of that element.
func c15OptionsApplied(a *An, r *Result, rule string) {
	var fn *ssa.Function
	for _, f := range a.P.srcFuncs(a.P.Main) {
		sig := f.Signature
		if sig.Recv() != nil || !sig.Variadic() || sig.Params().Len() != 1 || sig.Results().Len() != 1 {
			continue
		}
		st, ok := sig.Results().At(0).Type().Underlying().(*types.Struct)
		if !ok {
			continue
		}
		hasOp := false
		for i := 0; i < st.NumFields(); i++ {
			if types.Identical(st.Field(i).Type(), a.Ro.Op) {
				hasOp = true
			}
		}
		if hasOp {
			fn = f
		}
	}
	if fn == nil {
		r.fail("anchor unresolved: the option builder (func(...option) options-struct)")
		return
	}
	w := a.E.Walk(fn, WalkOpts{})
	applied := false
	why := "no call of an element of the options parameter on the returned struct"
	for _, v := range w.Visits {
		call, ok := v.Instr.(*ssa.Call)
		if !ok || call.Call.IsInvoke() || call.Call.StaticCallee() != nil || len(call.Call.Args) != 1 {
			continue
		}
		// callee value: an element of the parameter slice (possibly handed to a small helper first)
		cvv, _ := v.Ctx.resolve(call.Call.Value)
		ld, ok := stripConv(cvv).(*ssa.UnOp)
		if !ok {
			continue
		}
		ia, ok := ld.X.(*ssa.IndexAddr)
		if !ok || ia.X != ssa.Value(fn.Params[0]) {
			continue
		}
		// argument: the address of the cell that is returned
		av, _ := v.Ctx.resolve(call.Call.Args[0])
		al, ok := av.(*ssa.Alloc)
		if !ok || al.Parent() != fn {
			continue
		}
		returned := false
		for _, b := range fn.Blocks {
			if ret, ok := b.Instrs[len(b.Instrs)-1].(*ssa.Return); ok {
				if l2, ok := ret.Results[0].(*ssa.UnOp); ok && l2.X == ssa.Value(al) {
					returned = true
				}
			}
		}
		onlyNil, bad := v.Cond.everyConj(func(c Conj) bool {
			for _, l := range c {
				isLoop := l.A.Kind == AkCmp && strings.Contains(l.A.Subj, "rangeindex")
				isNil := l.A.Kind == AkNil && l.Neg
				if !isLoop && !isNil {
					return false
				}
			}
			return true
		})
		if returned && onlyNil {
			applied = true
		} else if !onlyNil {
			why = "the option is applied only under " + stripIDs(bad.String())
		}
	}
	r.ob(rule, "options-applied", "every non-nil option passed to Add is applied to the option set that is used (withOps and friends take effect)", a.P.pos(fn.Pos()), applied, why)
}

var theProgram *Program

// globalConstArrayElem: v loads an element of a package-level array whose elements are integer constants stored by the
// package initialiser only (never written elsewhere).
func globalConstArrayElem(v ssa.Value) ([]uint64, bool) {
	if theProgram == nil {
		return nil, false
	}
	var g *ssa.Global
	switch x := stripConv(v).(type) {
	case *ssa.UnOp: // *(&g[i])
		if ia, ok := x.X.(*ssa.IndexAddr); ok && x.Op == token.MUL {
			g, _ = ia.X.(*ssa.Global)
		}
	case *ssa.Index: // (*g)[i]: ranging over an array value copies it first
		if ld, ok := x.X.(*ssa.UnOp); ok && ld.Op == token.MUL {
			g, _ = ld.X.(*ssa.Global)
		}
	}
	if g == nil || g.Pkg != theProgram.Main {
		return nil, false
	}
	arr, ok := deref(g.Type()).Underlying().(*types.Array)
	if !ok {
		return nil, false
	}
	init := theProgram.Main.Func("init")
	if init == nil {
		return nil, false
	}
	vals := map[int64]uint64{}
	for f := range theProgram.All {
		if !theProgram.inModule(f) || isCtl(f) {
			continue
		}
		for _, b := range f.Blocks {
			for _, in := range b.Instrs {
				x, ok := in.(*ssa.IndexAddr)
				if !ok || x.X != ssa.Value(g) {
					continue
				}
				if rr := x.Referrers(); rr != nil {
					for _, u := range *rr {
						if st, isSt := u.(*ssa.Store); isSt && st.Addr == ssa.Value(x) {
							idx, ok1 := constUint(x.Index)
							k, ok2 := constUint(st.Val)
							if f != init || !ok1 || !ok2 {
								return nil, false
							}
							vals[int64(idx)] = k
						}
					}
				}
			}
		}
	}
	if int64(len(vals)) != arr.Len() {
		return nil, false
	}
	var out []uint64
	for _, k := range vals {
		out = append(out, k)
	}
	return out, true
}

// actionMapLookup: v is `m[param]` for an immutable constant package-level map m and the function's own parameter.
func actionMapLookup(a *An, fn *ssa.Function, v ssa.Value) (map[string]*ssa.Const, bool) {
	lk, ok := stripConv(v).(*ssa.Lookup)
	if !ok || lk.CommaOk {
		return nil, false
	}
	if _, isParam := stripConv(lk.Index).(*ssa.Parameter); !isParam {
		return nil, false
	}
	ld, ok := lk.X.(*ssa.UnOp)
	if !ok {
		return nil, false
	}
	g, ok := ld.X.(*ssa.Global)
	if !ok {
		return nil, false
	}
	return staticMap(a.P, g)
}

// c15Supports: xSupports is constant true on inotify, and false exactly when an unportable operation is requested elsewhere.
func c15Supports(a *An, inotify bool) {
	theProgram = a.P
	xs := a.Ro.API["xSupports"]
	if xs == nil {
		a.R.fail("anchor unresolved: xSupports")
		return
	}
	opN, opBy := opNames(a)
	w := a.E.Walk(xs, WalkOpts{})
	a.R.Sites += len(w.Visits)
	var trueCond, falseCond DNF
	for _, v := range w.Visits {
		r, ok := v.Instr.(*ssa.Return)
		if !ok || v.Ctx.Parent != nil {
			continue
		}
		k, ok := r.Results[0].(*ssa.Const)
		if !ok || k.Value == nil {
			// a boolean expression: true exactly when its literal holds
			l := v.Ctx.lit(r.Results[0])
			if l.A.Kind == AkOpaque || l.A.Kind == AkPred {
				a.R.ob("C15.supports", "xSupports", "xSupports is a bit test of its argument", a.P.instrPos(r), false, "unrecognised result expression "+stripIDs(v.Ctx.path(r.Results[0])))
				return
			}
			trueCond = trueCond.or(v.Cond.andLit(l))
			falseCond = falseCond.or(v.Cond.andLit(Lit{A: l.A, Neg: !l.Neg}))
			continue
		}
		if k.Value.String() == "true" {
			trueCond = trueCond.or(v.Cond)
		} else {
			falseCond = falseCond.or(v.Cond)
		}
	}
	unport := opBy["xUnportableOpen"] | opBy["xUnportableRead"] | opBy["xUnportableCloseWrite"] | opBy["xUnportableCloseRead"]
	if inotify {
		a.R.ob("C15.supports", "xSupports", "inotify supports every operation (returns true unconditionally)", a.P.pos(xs.Pos()), falseCond.isFalse() && trueCond.isTrue(),
			sprintf("true under %s; false under %s", stripIDs(trueCond.String()), stripIDs(falseCond.String())))
		return
	}
	falseCond = foldConstArrayTests(falseCond)
	_, bits, prob := guardBits(falseCond, func(s string) bool { return s == "p:op" || strings.HasPrefix(s, "p:") })
	ok := prob == "" && bits == unport
	wit := sprintf("false iff any of %s", maskName(opN)(bits))
	if prob != "" {
		wit = "false-condition is not an any-of bit test: " + prob + " (" + stripIDs(falseCond.String()) + ")"
	}
	a.R.ob("C15.supports", "xSupports", "this backend reports an operation set unsupported exactly when it contains one of the four unportable operations", a.P.pos(xs.Pos()), ok, wit)
}

package main

import (
	"go/types"
	"sort"
	"strings"

	"golang.org/x/tools/go/ssa"
)

func init() {
	register(&property{
		Meta: propMeta{
			ID:    "C14",
			Title: "The event stream does not depend on buffering or on other Watchers",
			Explanation: "Value-origin and who-may-write rules over the SSA of the two constructors and of every backend (cross-compiled). Decided: " +
				"(1) NewBufferedWatcher makes the event channel with a capacity that originates from its parameter (a conversion only), NewWatcher from the backend's default-size variable, which E-F shows constant; the made channel is the very value stored in Watcher.Events and passed to the backend constructor, and every channel-of-Event field of the backend and of the shared struct is stored with that parameter value (the backend makes no channel of its own); " +
				"(2) no state is shared between Watchers: no package-level variable is stored outside the package initialiser, none has map, slice, channel, pool or mutex type, and every syscall of the inotify backend addresses the receiver's own descriptor field; " +
				"(3) the code never takes len() or cap() of a channel, so behaviour cannot depend on the buffer size or its fill level. " +
				"Not decided: sequences of events as such.",
			Rule:        "one obligation per constructor fact, per channel field store, per package-level variable, per syscall descriptor operand, per len/cap scan",
			Assumptions: []string{"go/types + go/ssa", "production folding (E-F) re-verified each run"},
			MinObl:      8,
		},
		Configs: tiered(linuxQuick, allBackendsQ),
		Run:     runC14,
	})
}

func runC14(p *Program, e *Engine, r *Result, tier string) {
	a := newAn(p, e, r, true)
	if a == nil {
		return
	}
	ro := a.Ro
	// (1) constructors (helpers shared by the two are inlined by the walk)
	for _, ctor := range []*ssa.Function{ro.NewWatcher, ro.NewBuffered} {
		cw := a.E.Walk(ctor, WalkOpts{Stop: func(f *ssa.Function) bool { return f == ro.Ctor }})
		a.R.Sites += len(cw.Visits)
		var mk *ssa.MakeChan
		var mkCtx *Ctx
		nMk := 0
		for _, v := range cw.Visits {
			if m, ok := v.Instr.(*ssa.MakeChan); ok && chanKind(ro, m.Type()) == "Events" {
				mk, mkCtx = m, v.Ctx
				nMk++
			}
		}
		if mk == nil || nMk != 1 {
			a.R.ob("C14.1", ctor.Name()+":make", "the constructor makes exactly one event channel", a.P.pos(ctor.Pos()), false, sprintf("%d make(chan Event) site(s)", nMk))
			continue
		}
		sz, szCtx := mkCtx.resolve(stripConv(mk.Size))
		for {
			if cv, ok := sz.(*ssa.Convert); ok {
				sz, szCtx = szCtx.resolve(cv.X)
				continue
			}
			break
		}
		sp := stripIDs(mkCtx.path(mk.Size))
		if ctor == ro.NewBuffered {
			ok := len(ctor.Params) == 1 && sz == ssa.Value(ctor.Params[0]) && szCtx.Parent == nil
			a.R.ob("C14.1", ctor.Name()+":capacity", "the capacity of Events is exactly the requested size", a.P.instrPos(mk), ok, "size operand: "+sp)
		} else {
			ok := false
			wit := "size operand: " + sp
			switch x := sz.(type) {
			case *ssa.UnOp:
				if g, isG := x.X.(*ssa.Global); isG {
					if k, folded := a.E.Fold[g]; folded {
						ok = true
						wit = sprintf("size is the package variable %s, constant %s by E-F", g.Name(), k.Value)
					} else {
						wit = sprintf("size is the package variable %s, which is not constant (it has another writer)", g.Name())
					}
				}
			case *ssa.Const:
				// a literal (or a per-platform constant, indistinguishable here): it must be the platform's default as
				// the backends define it today - unbuffered everywhere, 50 on Windows
				want := uint64(0)
				if strings.Contains(strings.Join(a.R.Files, " "), "backend_windows.go") {
					want = 50
				}
				k, isInt := constUint(x)
				ok = isInt && k == want
				wit = sprintf("constant %s (platform default %d)", sp, want)
			}
			a.R.ob("C14.1", ctor.Name()+":capacity", "NewWatcher's capacity is the platform default (a constant)", a.P.instrPos(mk), ok, wit)
		}
		// the made channel goes to Watcher.Events and to the backend constructor
		toField, toCtor := false, false
		for _, v := range cw.Visits {
			switch x := v.Instr.(type) {
			case *ssa.Store:
				f := fieldOf(x.Addr)
				if f == nil || !containsVar(ro.EventChans, f) || ro.StructOf[f] != ro.Watcher {
					continue
				}
				if rv, _ := v.Ctx.resolve(x.Val); rv == ssa.Value(mk) {
					toField = true
				}
			case *ssa.Call:
				if v.Ctx.calleeOf(&x.Call) != ro.Ctor {
					continue
				}
				for _, arg := range x.Call.Args {
					if rv, _ := v.Ctx.resolve(arg); rv == ssa.Value(mk) {
						toCtor = true
					}
				}
			}
		}
		a.R.ob("C14.1", ctor.Name()+":same-channel", "the channel made is the one published as Watcher.Events and the one handed to the backend", a.P.instrPos(mk), toField && toCtor, sprintf("stored in Watcher.Events: %v; passed to %s: %v", toField, shortFn(ro.Ctor), toCtor))
	}
	// channel fields of backend structs are stored with the constructor's parameter
	w := a.walk(ro.Ctor)
	nStores := 0
	for _, v := range w.Visits {
		st, ok := v.Instr.(*ssa.Store)
		if !ok {
			continue
		}
		f := fieldOf(st.Addr)
		if f == nil || !containsVar(ro.EventChans, f) || ro.StructOf[f] == ro.Watcher {
			continue
		}
		nStores++
		rv, rc := v.Ctx.resolve(st.Val)
		_, isParam := rv.(*ssa.Parameter)
		ok2 := isParam && rc.Parent == nil && rv.Parent() == ro.Ctor
		a.R.ob("C14.1", "backend-field("+fieldStr(ro, f)+")", "the backend sends on the channel it was given (it stores the constructor's parameter, it makes none of its own)", a.P.instrPos(st), ok2,
			"stored value: "+stripIDs(rc.path(rv)))
	}
	if nStores == 0 {
		a.R.fail("no store to a chan Event field in the backend constructor (vacuous)")
	}
	// any other MakeChan of Event in the package
	for _, fn := range a.P.srcFuncs(a.P.Main) {
		if fn == ro.NewWatcher || fn == ro.NewBuffered {
			continue
		}
		for _, b := range fn.Blocks {
			for _, in := range b.Instrs {
				if m, ok := in.(*ssa.MakeChan); ok && chanKind(ro, m.Type()) == "Events" && !sharedCtorHelper(a, fn) {
					a.R.ob("C14.1", "extra-make@"+shortFn(fn), "no event channel is made outside the two constructors", a.P.instrPos(m), false, "")
				}
			}
		}
	}
	// (2) package-level state
	c14Globals(a)
	if strings.Contains(strings.Join(r.Files, " "), "backend_inotify.go") {
		for _, root := range a.roots() {
			c12FdOrigin(a, root)
		}
		for i := range a.R.Obligations {
			if a.R.Obligations[i].Rule == "C12.4" {
				a.R.Obligations[i].Rule = "C14.2"
				a.R.Obligations[i].Key = "C14.2|" + strings.TrimPrefix(a.R.Obligations[i].Key, "C12.4|")
			}
		}
	}
	// (3)
	c03NoChanLen(a, "C14.3")
}

// sharedCtorHelper: fn is a package helper called by both public constructors (and is not the backend constructor).
func sharedCtorHelper(a *An, fn *ssa.Function) bool {
	ro := a.Ro
	calls := func(from *ssa.Function) bool {
		for _, b := range from.Blocks {
			for _, in := range b.Instrs {
				if c, ok := in.(*ssa.Call); ok && c.Call.StaticCallee() == fn {
					return true
				}
			}
		}
		return false
	}
	return fn != ro.Ctor && calls(ro.NewWatcher) && calls(ro.NewBuffered)
}

func sharedStateType(t types.Type, depth int) string {
	if depth > 4 {
		return ""
	}
	if syncType(t) {
		return "sync type " + t.String()
	}
	switch u := t.Underlying().(type) {
	case *types.Map:
		return "map"
	case *types.Slice:
		return "slice"
	case *types.Chan:
		return "channel"
	case *types.Pointer:
		if _, ok := u.Elem().Underlying().(*types.Struct); ok {
			return "pointer to struct"
		}
	case *types.Struct:
		for i := 0; i < u.NumFields(); i++ {
			if s := sharedStateType(u.Field(i).Type(), depth+1); s != "" {
				return "struct containing " + s
			}
		}
	}
	return ""
}

func c14Globals(a *An) {
	p := a.P
	type info struct {
		stores []string
		addr   []string
	}
	gi := map[*ssa.Global]*info{}
	var gs []*ssa.Global
	for _, m := range p.Main.Members {
		if g, ok := m.(*ssa.Global); ok && !strings.HasPrefix(g.Name(), "init$") && strings.HasPrefix(g.Name(), "zzCtl") == p.ctlMode {
			gi[g] = &info{}
			gs = append(gs, g)
		}
	}
	sort.Slice(gs, func(i, j int) bool { return gs[i].Name() < gs[j].Name() })
	for _, fn := range p.srcFuncs(p.Main) {
		for _, b := range fn.Blocks {
			for _, in := range b.Instrs {
				for _, op := range in.Operands(nil) {
					if op == nil || *op == nil {
						continue
					}
					g, ok := (*op).(*ssa.Global)
					if !ok || gi[g] == nil {
						continue
					}
					switch x := in.(type) {
					case *ssa.Store:
						if x.Addr == ssa.Value(g) && !(fn.Name() == "init" && fn.Pkg == p.Main) {
							gi[g].stores = append(gi[g].stores, p.instrPos(in)+" in "+shortFn(fn))
						}
					case *ssa.FieldAddr, *ssa.IndexAddr:
						if hasStoreThrough(x.(ssa.Value)) && !(fn.Name() == "init" && fn.Pkg == p.Main) {
							gi[g].stores = append(gi[g].stores, p.instrPos(in)+" in "+shortFn(fn))
						}
					}
				}
			}
		}
	}
	// the package initialiser itself is synthetic ("init"); user init functions are init#1...
	for _, g := range gs {
		inf := gi[g]
		t := deref(g.Type())
		shared := sharedStateType(t, 0)
		ok := len(inf.stores) == 0 && shared == ""
		wit := "never stored after package initialisation; type " + types.TypeString(t, func(p *types.Package) string { return p.Name() })
		if len(inf.stores) > 0 {
			wit = "stored at run time: " + fmtList(uniq(inf.stores))
		}
		if shared != "" {
			wit += "; shared mutable type: " + shared
		}
		a.R.ob("C14.2", "global("+g.Name()+")", "package-level variables carry no state between Watchers (immutable after initialisation, no container type)", a.P.pos(g.Pos()), ok, wit)
	}
}

#!/bin/sh
# Build the checker from files on disk + module cache only (offline).
set -e
cd "$(dirname "$0")"
exec ./bin/build
